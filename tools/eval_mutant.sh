#!/bin/bash
# tools/eval_mutant.sh <PROP> <worktree> <i> [extra check ids...]
# 1) confirm the sub-agent's claims in ITS scratch worktree (demo fails with / passes without, suite passes),
# 2) apply the patch to /repo, run the property's quick check (+ extras), undo,
# 3) file it under /verif/seeded/<PROP>-m<i>/ with meta.json.
set -u
export GOFLAGS=-mod=mod GOPROXY=off GOSUMDB=off GOTOOLCHAIN=local
P=$1; WT=$2; I=$3; shift 3; EXTRA="$*"
M=$WT/mutants; D=$M/m$I.diff
[ -f "$D" ] || { echo "no $D"; exit 2; }
cd "$WT" || exit 2
if [ -f "$M/confirm$I.txt" ]; then
  # step 1 was done earlier (ONLY_CONFIRM=1): reuse its verdict
  . "$M/confirm$I.txt"
  DEMOS=$(ls $M/demo${I}*_test.go 2>/dev/null)
  echo "[$P m$I] (cached) builds=$builds demo-without=$without demo-with=$with suite-unexpected-failures='${suite}'"
else
git checkout -q -- . ; rm -f zz_demo*_test.go
DEMOS=$(ls $M/demo${I}*_test.go 2>/dev/null)
PKGDIR=.
grep -q "^package ztest" $DEMOS 2>/dev/null && PKGDIR=internal/ztest
rm -f $PKGDIR/zz_demo*_test.go
n=0; for f in $DEMOS; do n=$((n+1)); cp "$f" "$PKGDIR/zz_demo${I}x${n}_test.go"; done
ls zz_demo* >/dev/null 2>&1 || { echo "no demo test files"; }
RACE=""; grep -q "go test -race" $M/m$I.md 2>/dev/null && RACE="-race"
TAGS=""; grep -lq "VerifSetHooks\|go:build verif" $PKGDIR/zz_demo*_test.go 2>/dev/null && TAGS="-tags verif"
RUNRE=$(grep -ho "^func Test[A-Za-z0-9_]*" $PKGDIR/zz_demo*_test.go | sed 's/func //' | paste -sd'|')
without=PASS; go test $RACE $TAGS -vet=off -count=2 -run "^($RUNRE)\$" ./$PKGDIR >/tmp/x/demo.without 2>&1 || without=FAIL
git apply "$D" || { echo "patch does not apply"; exit 2; }
go build ./... && go vet . >/dev/null 2>&1 && GOOS=freebsd go build . && GOOS=windows go build . ; builds=$?
with=PASS; for k in 1 2 3; do go test $RACE $TAGS -vet=off -count=1 -run "^($RUNRE)\$" ./$PKGDIR >/tmp/x/demo.with 2>&1 || { with=FAIL; break; }; done
mv $PKGDIR/zz_demo*_test.go /tmp/x/ 2>/dev/null
suite=$(go test -vet=off -count=1 . ./internal/... 2>&1 | grep -E "^\s*--- FAIL" | grep -v "TestAdd \|permission_denied\|TestWatchMultipleWrite" | tr -s ' ' | paste -sd';')
git checkout -q -- .
echo "[$P m$I] builds=$builds demo-without=$without demo-with=$with suite-unexpected-failures='${suite}'"
printf 'builds=%q\nwithout=%q\nwith=%q\nsuite=%q\n' "$builds" "$without" "$with" "$suite" > "$M/confirm$I.txt"
fi
[ -n "${ONLY_CONFIRM:-}" ] && exit 0
# 2) run my checks against it
cd /verif
git -C /repo apply "$D" 2>/dev/null || git -C /repo apply --3way "$D" || { echo "does not apply to /repo"; git -C /repo reset -q --hard HEAD; exit 2; }
(cd /repo && go build ./... ) || { echo "mutated /repo does not build"; git -C /repo reset -q --hard HEAD; exit 2; }
declare -A RES
for c in $P $EXTRA; do
  out=$(./run.sh $c quick 2>&1); rc=$?
  sig=$(echo "$out" | grep -o "signature=[^ ]*" | sort | uniq -c | sort -rn | head -3 | awk '{print $2"x"$1}' | paste -sd',')
  RES[$c]="exit=$rc ${sig}"
  echo "  check $c: exit=$rc $sig"
done
git -C /repo reset -q --hard HEAD
git -C /repo status --short | grep -v '^??' && echo "WARNING /repo not clean"
# 3) file it
if [ "$with" = FAIL ] && [ "$without" = PASS ] && [ "$builds" = 0 ]; then
  S=/verif/seeded/$P-${TAG:-m}$I; mkdir -p $S
  cp "$D" $S/patch.diff; cp $DEMOS $S/ 2>/dev/null; cp $M/m$I.md $S/agent_notes.md 2>/dev/null
  python3 - "$P" "$I" "$S" "$suite" <<PY
import json,sys,subprocess
P,I,S,suite=sys.argv[1:5]
res={}
$(for c in $P $EXTRA; do echo "res['$c']='''${RES[$c]}'''"; done)
meta={"property":P,"mutant":"${TAG:-m}"+I,"source":"independent sub-agent, given only the property text and a scratch worktree",
 "confirmed":{"builds_incl_freebsd_windows":True,"demo_fails_with_change":True,"demo_passes_without_change":True,"suite_unexpected_failures_with_change":suite},
 "needs_to_manifest":"see agent_notes.md","checks_run_quick":res,
 "detected_by":[c for c,v in res.items() if v.startswith('exit=1')]}
json.dump(meta,open(S+"/meta.json","w"),indent=1)
print("  filed",S,"detected_by",meta["detected_by"])
PY
else
  echo "  NOT CONFIRMED (with=$with without=$without builds=$builds) — not filed"
fi
