#!/bin/bash
# tools/report_old.sh <seeded-id> <port.diff> — replace a seeded change whose patch no longer applies (a later fix:
# commit touched the same lines) by my port of the same edit: keeps the original as patch.orig.diff, re-runs the
# stored demonstration on the ported tree (it must still fail), runs the property's check and the checks that
# caught it before, updates meta.json, undoes everything.
set -u
export GOFLAGS=-mod=mod GOPROXY=off GOSUMDB=off GOTOOLCHAIN=local
S=$1; PORT=$2; D=/verif/seeded/$S
git -C /repo status --short | grep -v '^??' && { echo "/repo not clean"; exit 2; }
git -C /repo apply "$PORT" || { echo "$S: port does not apply"; exit 2; }
cd /repo
DEMOS=$(ls $D/demo*_test.go 2>/dev/null)
with="n/a"
if [ -n "$DEMOS" ]; then
  PKGDIR=.; grep -q "^package ztest" $DEMOS 2>/dev/null && PKGDIR=internal/ztest
  n=0; for f in $DEMOS; do n=$((n+1)); cp "$f" "$PKGDIR/zz_demox${n}_test.go"; done
  TAGS=""; grep -lq "VerifSetHooks\|go:build verif" $PKGDIR/zz_demox*_test.go 2>/dev/null && TAGS="-tags verif"
  RACE=""; grep -q "go test -race" $D/agent_notes.md 2>/dev/null && RACE="-race"
  RUNRE=$(grep -ho "^func Test[A-Za-z0-9_]*" $PKGDIR/zz_demox*_test.go | sed 's/func //' | paste -sd'|')
  with=PASS; for k in 1 2 3; do go test $RACE $TAGS -vet=off -count=1 -run "^($RUNRE)\$" ./$PKGDIR >/tmp/x/demo.port 2>&1 || { with=FAIL; break; }; done
  rm -f $PKGDIR/zz_demox*_test.go
fi
cd /verif
P=$(python3 -c "import json;print(json.load(open('$D/meta.json'))['property'])")
PREV=$(python3 -c "import json;print(' '.join(json.load(open('$D/meta.json'))['detected_by']))")
CHECKS=$(echo "$P $PREV ${EXTRA:-}" | tr ' ' '\n' | sort -u | tr '\n' ' ')
line="$S (demo on the ported tree: $with):"
declare -A RES
for c in $CHECKS; do
  out=$(./run.sh $c quick 2>&1); rc=$?
  sig=$(echo "$out" | grep -av '^KNOWN' | grep -ao "signature=[^ ]*" | sort | uniq -c | sort -rn | head -3 | awk '{print $2}' | sed 's/signature=//' | paste -sd',')
  RES[$c]="exit=$rc $sig"; line="$line $c=exit$rc[$sig]"
done
git -C /repo reset -q --hard HEAD
[ -f $D/patch.orig.diff ] || cp $D/patch.diff $D/patch.orig.diff
cp "$PORT" $D/patch.diff
python3 - "$D" "$with" <<PY
import json,sys
d,withp=sys.argv[1:3]
m=json.load(open(d+'/meta.json'))
res={}
$(for c in $CHECKS; do echo "res['$c']='''${RES[$c]}'''"; done)
m['checks_run_quick']=res
m['detected_by']=sorted(c for c,v in res.items() if v.startswith('exit=1'))
m['port_note']="patch.orig.diff is the change as it was made against the tree of its wave; fix commits D8-D12 later touched the same lines, so patch.diff is my port of the same edit to the current tree (stored demonstration on the ported tree: %s)"%withp
json.dump(m,open(d+'/meta.json','w'),indent=1)
PY
echo "$line"
