#!/usr/bin/env python3
"""Generate /verif/MANIFEST.json from the table below (single source of truth)."""
import json, os, subprocess
V = "/verif"
# id: (engine, category, technique, level text, level note, design ref)
CHECKS = {
 "C16": ("E-enum", "exploration",
         "runtime oracle over the whole finite domain (low 16 bits x 512 probes) + PRNG sampling above",
         "The real Has/String functions are executed on every Op with the low 16 bits and every defined probe set, renderings are parsed back and compared with a reference table; exhaustive on that domain, sampled on bits 16..31.",
         "Reference table of token names written from the documentation; bits 16..31 sampled.", "§4 C16"),
}
TWIN_NOTE = "Trusted base: the Linux kernel delivers the same notifications in the same order to a second inotify instance watching the same inodes; the reference translator (harness/twin/shadow.go) is an independent statement of the documented semantics. Explores PRNG-chosen histories, not all of them."
CHECKS.update({
 "C01": ("E-twin", "exploration", "runtime monitor: kernel ground-truth shadow + reference translator + sentinel barrier; forced queue overflow; race detector/checkptr build of the same workload",
         "Differential monitoring of the real Watcher against the kernel's own notification log over thousands of PRNG syscall programs with consumer pauses (multi-event reads up to 64 KiB) and a real overflow; a missing expected event at a barrier is a violation.", TWIN_NOTE, "§2.1, §4 C01"),
 "C02": ("E-twin", "exploration", "runtime monitor: kernel ground-truth shadow + reference translator; direct predicates on every received value; directed post-Remove and unmount histories",
         "Every received event must be explained by a kernel notification of a currently watched path; directed histories probe changes made after Remove returned, previously watched subdirectories, parent+file deletes and a real tmpfs unmount.", TWIN_NOTE, "§4 C02"),
 "C03": ("E-twin", "exploration", "runtime monitor: order of the received stream vs the kernel's total order, across buffer sizes and consumer paces",
         "A sequential driver yields a total kernel order; the received stream is aligned with it (LCS over runs) and any event found at another position, or a Create with an old name not directly preceded by its Rename, is a violation.", TWIN_NOTE, "§4 C03"),
 "C10": ("E-twin+E-fault", "fault_enumeration", "runtime monitor on the Errors channel over benign histories with a lagging reader; real kernel queue overflows as injected fault",
         "Benign histories (random and the directed watch-invalidated-before-processed family at several reader lags) must leave Errors empty; provoked overflows of 1.1x-8x the queue limit must announce ErrEventOverflow and leave the Watcher fully usable.", TWIN_NOTE + " Overflow sizes are a fixed list, not all sizes.", "§4 C10"),
 "C20": ("E-enum", "exploration", "runtime oracle: parse the produced diff, apply it, compare; independent backtracking matcher for DiffMatch; exhaustive small domain + PRNG",
         "All 132 496 pairs of line sequences of length <=5 over three letters plus PRNG long pairs through the real ztest.Diff with a patch-applying oracle; generated placeholder templates through the real DiffMatch against an independent matcher.", "The oracle's parser of the diff format and the reference matcher are trusted; DiffMatch cases straddling a UTC date change are discarded.", "§4 C20"),
})
CHECKS.update({
 "C04": ("E-model", "exploration", "runtime reference-model monitor on the public API (sequential inode-identity model), exhaustive over all short operation sequences + PRNG/template sequences; fdinfo mark count",
         "All sequences of length <=3 over a 24-letter alphabet of Add/Remove spellings, failing Adds and filesystem steps (thorough: <=4 over 14 letters, <=3 over 45) are executed against the real Watcher next to a sequential model; WatchList and result classes compared after every step, live-watch probes, zero kernel marks at the end.",
         "The model (harness/checks/c04.go) is my reading of the statement; stat(2) identifies files; strict schedule (barrier after each filesystem step). Exhaustive only up to the stated length.", "§4 C04"),
 "C08": ("E-twin", "exploration", "runtime monitor: driver-known entry names and Add spellings vs received Event.Name, names decoded at offsets across the 64 KiB read buffer; checkptr/race build",
         "14 spellings of the Add argument x entry names of every padding-relevant byte length and 8 shapes, with consumer pauses; every received name must be byte-for-byte Clean(arg)[/entry]; aliases must keep the first spelling.", TWIN_NOTE, "§4 C08"),
 "C09": ("E-twin+API", "exploration", "runtime monitor: directed end-of-watch histories with API probes (WatchList, Remove result, re-Add) and the kernel shadow with the semantic parent rule",
         "A parameter grid of directed histories (ending x parent mode x symlink x held descriptors) followed by further operations and a re-Add; three recorded findings (D5a/b/c) are reported as KNOWN-FINDING by witness-specific signatures.", TWIN_NOTE, "§4 C09, §5 D5"),
 "C11": ("E-twin", "exploration", "runtime monitor: kernel cookie pairing (unbounded map) vs the old name carried by received Creates; sequential and concurrent movers; race build",
         "Sequential move histories with up to 200 unmatched cookies in a row and chains of up to 500 moves, plus 2-8 concurrent movers compared per directory; the kernel's cookie defines 'the same move'.", TWIN_NOTE + " Concurrent histories with >=10 IN_MOVED_FROM between the halves of one move are not judged (ring size is documented).", "§4 C11"),
 "C12": ("E-proc", "exploration", "runtime invariant monitor at quiescent points: /proc/self/fdinfo kernel marks == wd table == path table == WatchList, and conservation over add/remove/delete/recreate/re-add cycles",
         "PRNG cycle programs (strict and lagging) with the three-way invariant checked every k steps and a return-to-start check after removing everything listed.", "fdinfo lists all marks; tables read through the verif hook under the library's lock at barriers only.", "§4 C12"),
 "C14": ("E-twin", "exploration", "runtime monitor: k Watchers with different buffer sizes + interfering Watchers fed by one driver, each compared with the kernel log; capacity and absorb probes",
         "cap(Events) for 20 sizes; 2-4 measured Watchers and 1-4 interfering ones (Add/Remove/Close/re-create) on the same directories; buffered Watchers without consumer must hold exactly n<=cap events and deliver them intact.", TWIN_NOTE, "§4 C14"),
})
PROC_NOTE = "Trusted base: the Go runtime's goroutine dumps and /proc/self/{fd,fdinfo}; the verif hooks (lock probe, yield points) behave as written. Explores PRNG schedules; a watchdog expiry without a structural witness is inconclusive, never a violation."
CHECKS.update({
 "C05": ("E-proc", "exploration", "runtime monitor: lock probe at every channel send (verif hook) + goroutine-dump deadlock signature under a watchdog; injected delays at yield points; race-detector build",
         "Histories that leave events/errors pending x 5 consumer behaviours x 5 buffer sizes, then a battery of control calls and 1-8 concurrent Close; a send performed while the sender holds the lock, or a blocked control call whose dump shows that send, is a violation.", PROC_NOTE, "§4 C05"),
 "C06": ("E-proc", "exploration", "runtime monitor: Close injected at PRNG points under stress, child exit status (panics), closed-channel and post-close API probes, dump signatures; race-detector build",
         "2000+ close points per quick run across consumer behaviours, buffers, 1-8 concurrent closers, racing Add/Remove/WatchList and GOMAXPROCS 1-16.", PROC_NOTE, "§4 C06"),
 "C07": ("E-lin+E-race", "exploration", "recorded call/return histories checked with porcupine against a sequential model; Go race detector over the same workload; final tables==kernel invariant",
         "Thousands of short concurrent histories (2-6 clients, with/without Close, mutators and consumer pacing, GOMAXPROCS 1-16, injected delays) each decided by porcupine; race reports with a library frame are violations.", "Trusted: porcupine v1.3.0, the sequential model (harness/checks/c07.go), the race detector's happens-before tracking. Only schedules that occurred are judged.", "§4 C07"),
 "C13": ("E-proc+E-fault", "fault_enumeration", "runtime conservation monitor over /proc/self/fd and goroutine dumps across create/close cycles; injected fault: RLIMIT_NOFILE makes inotify_init1 fail",
         "Thousands of create/use/close cycles over six prior-history kinds and thousands of NewWatcher calls failing with EMFILE; descriptor and goroutine counts must return to baseline.", PROC_NOTE + " Kernel marks are assumed freed with the instance.", "§4 C13"),
 "C19": ("E-twin", "exploration", "runtime monitor: ideal recursive shadow (one raw kernel watch per directory keyed by its true path) vs the Watcher's recursive watch",
         "Histories over prefix-sharing sibling trees with inner-directory renames, level-by-level mkdir, file operations at every depth and removal of one of 2-3 recursive roots.", TWIN_NOTE + " The recursive feature is enabled through the verif hook (it is not public).", "§4 C19"),
})
KQ_NOTE = "The kqueue KERNEL is simulated (harness/gen/tmpl/simunix + kdrv); the backend code is the real backend_kqueue.go/shared.go/fsnotify.go copied from the working tree at build time. Before each run the simulation must reproduce the repository's ~40 applicable testdata scripts' recorded kqueue/freebsd expectations, else the check reports 'broken' (exit 2), never a violation. macOS/NetBSD/OpenBSD/DragonFly deviations are out of reach."
CHECKS.update({
 "C15": ("E-enum", "exploration", "runtime oracle over whole finite domains: real translation functions of every backend executed on all native-flag combinations; kernel mask read back from fdinfo; behavioural single-op pass; simulated-kqueue registration read-back",
         "inotify: all 2^12 x 2^4 masks and all 2^9 requested op sets x follow/no-follow x file/dir/symlink with fdinfo read-back; kqueue: all 2^11 NOTE combinations on the copied backend + registered fflags on the simulator; Windows: all 2^16 masks, all actions, toWindowsFlags on 2^12 masks (functions extracted from the working tree); xSupports of four backends over all 2^9 sets.",
         "Reference tables written from inotify(7), kqueue(2) and ReadDirectoryChangesW docs. Windows/FEN: only the extracted pure functions run on Linux with the real Win32 constant values; their event loops are out of reach.", "§4 C15"),
 "C17": ("E-simkq", "exploration", "runtime monitor: descriptor ledger + table snapshots of the real kqueue backend on a simulated kqueue, at simulator quiescence after every step; concurrent variant under the race detector",
         "Sequential histories over directories with files, sub-directories, FIFOs and symlinks with ledger/table/WatchList invariants after every step, after removing everything and after Close; concurrent Add/Remove/WatchList vs Close. Four recorded findings (K1, K3, K4, K6) are reported as KNOWN-FINDING by shape-specific signatures.", KQ_NOTE, "§2.5, §4 C17"),
 "C18": ("E-simkq", "exploration", "runtime monitor: reference event model vs the real kqueue backend on a simulated kqueue, per step at quiescence; burst variant with timing-independent assertions",
         "Sequential histories with quiescence after every step compared (multiset per step) with a model of the documented directory-diff semantics; burst histories judged only on names whose history is unambiguous. Two recorded findings (K3, K4).", KQ_NOTE, "§2.5, §4 C18"),
})
PENDING = {}
ids = [json.loads(l)["id"] for l in open(f"{V}/properties.jsonl")]
hooks = subprocess.run(["git", "-C", "/repo", "log", "--format=%H %s"], capture_output=True, text=True).stdout.splitlines()
hook_commits = [l.split()[0] for l in hooks if l.split(" ", 1)[1].startswith("verif:")]
checks = []
for i in ids:
    if i not in CHECKS:
        continue
    eng, cat, tech, text, note, ref = CHECKS[i]
    checks.append({
        "property_id": i,
        "quick_cmd": f"./run.sh {i} quick",
        "thorough_cmd": f"./run.sh {i} thorough",
        "evidence_file": f"/verif/evidence/{i}.json",
        "replay_cmd_template": f"./run.sh {i} quick --replay {{path}}",
        "engine": eng,
        "level_claimed": {"category": cat, "text": text, "design_ref": ref},
        "level_note": note,
        "technique": tech,
    })
na = [{"property_id": i, "reason": PENDING.get(i, "check not built yet in this round; claimed in DESIGN.md, machinery in progress")} for i in ids if i not in CHECKS]
m = {
 "version": 1,
 "setup_cmd": "./build.sh all",
 "hooks": {
   "guard": "verif",
   "enable": "go build -tags verif (harness module /verif/harness with replace github.com/fsnotify/fsnotify => /repo)",
   "baseline_off_cmd": "/verif/tools/baseline.sh",
   "source_commits": hook_commits,
   "add_only": True,
 },
 "engines": [],
 "checks": checks,
 "notes": "Runtime monitoring and sanitizers only. Exit 0 held / 1 violation / 2 check broken (blind monitor, build failure, simulator self-validation failure). known_findings.json lists genuine defects recorded rather than repaired.",
 "not_applicable": na,
}
eng = {}
for i, c in CHECKS.items():
    eng.setdefault(c[0], []).append(i)
m["engines"] = [{"name": k, "path": "/verif/harness", "serves_properties": sorted(v), "kind_free_text": "runtime monitor"} for k, v in sorted(eng.items())]
json.dump(m, open(f"{V}/MANIFEST.json", "w"), indent=1)
print("claimed", len(checks), "not_applicable", len(na))
