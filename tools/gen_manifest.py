#!/usr/bin/env python3
"""Generate /verif/MANIFEST.json from the table below (single source of truth)."""
import json, os, subprocess
V = "/verif"
# id: (engine, category, technique, level text, level note, design ref)
CHECKS = {
 "C16": ("E-enum", "exploration",
         "runtime oracle over the whole finite domain (low 16 bits x 512 probes) + PRNG sampling above",
         "The real Has/String functions are executed on every Op with the low 16 bits and every defined probe set, renderings are parsed back and compared with a reference table; exhaustive on that domain, sampled on bits 16..31.",
         "Reference table of token names written from the documentation; bits 16..31 sampled.", "§4 C16"),
}
PENDING = {}
ids = [json.loads(l)["id"] for l in open(f"{V}/properties.jsonl")]
hooks = subprocess.run(["git", "-C", "/repo", "log", "--format=%H %s"], capture_output=True, text=True).stdout.splitlines()
hook_commits = [l.split()[0] for l in hooks if l.split(" ", 1)[1].startswith("verif:")]
checks = []
for i in ids:
    if i not in CHECKS:
        continue
    eng, cat, tech, text, note, ref = CHECKS[i]
    checks.append({
        "property_id": i,
        "quick_cmd": f"./run.sh {i} quick",
        "thorough_cmd": f"./run.sh {i} thorough",
        "evidence_file": f"/verif/evidence/{i}.json",
        "replay_cmd_template": f"./run.sh {i} quick --replay {{path}}",
        "engine": eng,
        "level_claimed": {"category": cat, "text": text, "design_ref": ref},
        "level_note": note,
        "technique": tech,
    })
na = [{"property_id": i, "reason": PENDING.get(i, "check not built yet in this round; claimed in DESIGN.md, machinery in progress")} for i in ids if i not in CHECKS]
m = {
 "version": 1,
 "setup_cmd": "./build.sh all",
 "hooks": {
   "guard": "verif",
   "enable": "go build -tags verif (harness module /verif/harness with replace github.com/fsnotify/fsnotify => /repo)",
   "baseline_off_cmd": "/verif/tools/baseline.sh",
   "source_commits": hook_commits,
   "add_only": True,
 },
 "engines": [],
 "checks": checks,
 "notes": "Runtime monitoring and sanitizers only. Exit 0 held / 1 violation / 2 check broken (blind monitor, build failure, simulator self-validation failure). known_findings.json lists genuine defects recorded rather than repaired.",
 "not_applicable": na,
}
eng = {}
for i, c in CHECKS.items():
    eng.setdefault(c[0], []).append(i)
m["engines"] = [{"name": k, "path": "/verif/harness", "serves_properties": sorted(v), "kind_free_text": "runtime monitor"} for k, v in sorted(eng.items())]
json.dump(m, open(f"{V}/MANIFEST.json", "w"), indent=1)
print("claimed", len(checks), "not_applicable", len(na))
