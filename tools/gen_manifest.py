#!/usr/bin/env python3
"""Generate /verif/MANIFEST.json from the table below (single source of truth)."""
import json, os, subprocess
V = "/verif"
# id: (engine, category, technique, level text, level note, design ref)
CHECKS = {
 "C16": ("E-enum", "exploration",
         "runtime oracle over the whole finite domain (low 16 bits x 512 probes) + PRNG sampling above",
         "The real Has/String functions are executed on every Op with the low 16 bits and every defined probe set, renderings are parsed back and compared with a reference table; exhaustive on that domain, sampled on bits 16..31.",
         "Reference table of token names written from the documentation; bits 16..31 sampled.", "§4 C16"),
}
TWIN_NOTE = "Trusted base: the Linux kernel delivers the same notifications in the same order to a second inotify instance watching the same inodes; the reference translator (harness/twin/shadow.go) is an independent statement of the documented semantics. Explores PRNG-chosen histories, not all of them."
CHECKS.update({
 "C01": ("E-twin", "exploration", "runtime monitor: kernel ground-truth shadow + reference translator + sentinel barrier; forced queue overflow; race detector/checkptr build of the same workload",
         "Differential monitoring of the real Watcher against the kernel's own notification log over thousands of PRNG syscall programs with consumer pauses (multi-event reads up to 64 KiB) and a real overflow; a missing expected event at a barrier is a violation.", TWIN_NOTE, "§2.1, §4 C01"),
 "C02": ("E-twin", "exploration", "runtime monitor: kernel ground-truth shadow + reference translator; direct predicates on every received value; directed post-Remove and unmount histories",
         "Every received event must be explained by a kernel notification of a currently watched path; directed histories probe changes made after Remove returned, previously watched subdirectories, parent+file deletes and a real tmpfs unmount.", TWIN_NOTE, "§4 C02"),
 "C03": ("E-twin", "exploration", "runtime monitor: order of the received stream vs the kernel's total order, across buffer sizes and consumer paces",
         "A sequential driver yields a total kernel order; the received stream is aligned with it (LCS over runs) and any event found at another position, or a Create with an old name not directly preceded by its Rename, is a violation.", TWIN_NOTE, "§4 C03"),
 "C10": ("E-twin+E-fault", "fault_enumeration", "runtime monitor on the Errors channel over benign histories with a lagging reader; real kernel queue overflows as injected fault",
         "Benign histories (random and the directed watch-invalidated-before-processed family at several reader lags) must leave Errors empty; provoked overflows of 1.1x-8x the queue limit must announce ErrEventOverflow and leave the Watcher fully usable.", TWIN_NOTE + " Overflow sizes are a fixed list, not all sizes.", "§4 C10"),
 "C20": ("E-enum", "exploration", "runtime oracle: parse the produced diff, apply it, compare; independent backtracking matcher for DiffMatch; exhaustive small domain + PRNG",
         "All 132 496 pairs of line sequences of length <=5 over three letters plus PRNG long pairs through the real ztest.Diff with a patch-applying oracle; generated placeholder templates through the real DiffMatch against an independent matcher.", "The oracle's parser of the diff format and the reference matcher are trusted; DiffMatch cases straddling a UTC date change are discarded.", "§4 C20"),
})
PENDING = {}
ids = [json.loads(l)["id"] for l in open(f"{V}/properties.jsonl")]
hooks = subprocess.run(["git", "-C", "/repo", "log", "--format=%H %s"], capture_output=True, text=True).stdout.splitlines()
hook_commits = [l.split()[0] for l in hooks if l.split(" ", 1)[1].startswith("verif:")]
checks = []
for i in ids:
    if i not in CHECKS:
        continue
    eng, cat, tech, text, note, ref = CHECKS[i]
    checks.append({
        "property_id": i,
        "quick_cmd": f"./run.sh {i} quick",
        "thorough_cmd": f"./run.sh {i} thorough",
        "evidence_file": f"/verif/evidence/{i}.json",
        "replay_cmd_template": f"./run.sh {i} quick --replay {{path}}",
        "engine": eng,
        "level_claimed": {"category": cat, "text": text, "design_ref": ref},
        "level_note": note,
        "technique": tech,
    })
na = [{"property_id": i, "reason": PENDING.get(i, "check not built yet in this round; claimed in DESIGN.md, machinery in progress")} for i in ids if i not in CHECKS]
m = {
 "version": 1,
 "setup_cmd": "./build.sh all",
 "hooks": {
   "guard": "verif",
   "enable": "go build -tags verif (harness module /verif/harness with replace github.com/fsnotify/fsnotify => /repo)",
   "baseline_off_cmd": "/verif/tools/baseline.sh",
   "source_commits": hook_commits,
   "add_only": True,
 },
 "engines": [],
 "checks": checks,
 "notes": "Runtime monitoring and sanitizers only. Exit 0 held / 1 violation / 2 check broken (blind monitor, build failure, simulator self-validation failure). known_findings.json lists genuine defects recorded rather than repaired.",
 "not_applicable": na,
}
eng = {}
for i, c in CHECKS.items():
    eng.setdefault(c[0], []).append(i)
m["engines"] = [{"name": k, "path": "/verif/harness", "serves_properties": sorted(v), "kind_free_text": "runtime monitor"} for k, v in sorted(eng.items())]
json.dump(m, open(f"{V}/MANIFEST.json", "w"), indent=1)
print("claimed", len(checks), "not_applicable", len(na))
