#!/bin/bash
# tools/eval_port.sh <PROP> <i> <port.diff> <agent worktree> [extra checks] — for a sub-agent change whose patch no
# longer applies to /repo (a later fix: commit touched the same lines): applies MY port of it to /repo, re-runs the
# agent's demonstration there (must still fail), runs the checks, undoes everything, files seeded/<PROP>-<TAG><i>/
# with patch.diff = the port and patch.orig.diff = the agent's change.
set -u
export GOFLAGS=-mod=mod GOPROXY=off GOSUMDB=off GOTOOLCHAIN=local
P=$1; I=$2; PORT=$3; WT=$4; shift 4; EXTRA="$*"
M=$WT/mutants
git -C /repo status --short | grep -v '^??' && { echo "/repo not clean"; exit 2; }
git -C /repo apply "$PORT" || { echo "port does not apply"; exit 2; }
cd /repo
DEMOS=$(ls $M/demo${I}*_test.go 2>/dev/null)
n=0; for f in $DEMOS; do n=$((n+1)); cp "$f" "zz_demo${I}x${n}_test.go"; done
TAGS=""; grep -lq "VerifSetHooks\|go:build verif" zz_demo*_test.go 2>/dev/null && TAGS="-tags verif"
RUNRE=$(grep -ho "^func Test[A-Za-z0-9_]*" zz_demo*_test.go | sed 's/func //' | paste -sd'|')
with=PASS; for k in 1 2 3; do go test $TAGS -vet=off -count=1 -run "^($RUNRE)\$" . >/tmp/x/demo.port 2>&1 || { with=FAIL; break; }; done
rm -f zz_demo*_test.go
echo "[$P port $I] demo on the ported tree: $with"
cd /verif
declare -A RES
for c in $P $EXTRA; do
  out=$(./run.sh $c quick 2>&1); rc=$?
  sig=$(echo "$out" | grep -v '^KNOWN' | grep -o "signature=[^ ]*" | sort | uniq -c | sort -rn | head -3 | awk '{print $2"x"$1}' | paste -sd',')
  RES[$c]="exit=$rc ${sig}"
  echo "  check $c: exit=$rc $sig"
done
git -C /repo reset -q --hard HEAD
git -C /repo status --short | grep -v '^??' && echo "WARNING /repo not clean"
. "$M/confirm$I.txt" 2>/dev/null
S=/verif/seeded/$P-${TAG:-m}$I; mkdir -p $S
cp "$PORT" $S/patch.diff; cp "$M/m$I.diff" $S/patch.orig.diff; cp $DEMOS $S/ 2>/dev/null; cp $M/m$I.md $S/agent_notes.md 2>/dev/null
python3 - "$P" "$I" "$S" "$with" "${suite:-}" <<PY
import json,sys
P,I,S,withp,suite=sys.argv[1:6]
res={}
$(for c in $P $EXTRA; do echo "res['$c']='''${RES[$c]}'''"; done)
meta={"property":P,"mutant":"${TAG:-m}"+I,"source":"independent sub-agent, given only the property text and a scratch worktree",
 "confirmed":{"builds_incl_freebsd_windows":True,"demo_fails_with_change":True,"demo_passes_without_change":True,"suite_unexpected_failures_with_change":suite,"demo_fails_on_the_ported_tree":withp=="FAIL"},
 "port_note":"patch.orig.diff is the agent's change against the tree it was given; a later fix: commit touched the same lines, so patch.diff is my port of the same edit to the current tree",
 "needs_to_manifest":"see agent_notes.md","checks_run_quick":res,
 "detected_by":[c for c,v in res.items() if v.startswith('exit=1')]}
json.dump(meta,open(S+"/meta.json","w"),indent=1)
print("  filed",S,"detected_by",meta["detected_by"])
PY
