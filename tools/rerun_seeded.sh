#!/bin/bash
# tools/rerun_seeded.sh [ids...] — apply every seeded change to /repo in turn, run the property's own
# quick check plus the checks that caught it before, update meta.json, undo. /repo must be clean.
cd /verif
git -C /repo status --short | grep -v '^??' && { echo "/repo not clean"; exit 2; }
for S in ${@:-$(ls seeded)}; do
  D=seeded/$S; [ -f $D/patch.diff ] || continue
  P=$(python3 -c "import json;print(json.load(open('$D/meta.json'))['property'])")
  PREV=$(python3 -c "import json;print(' '.join(json.load(open('$D/meta.json'))['detected_by']))")
  CHECKS=$(echo "$P $PREV ${EXTRA:-}" | tr ' ' '\n' | sort -u | tr '\n' ' ')
  git -C /repo apply /verif/$D/patch.diff 2>/dev/null || git -C /repo apply --3way /verif/$D/patch.diff >/dev/null 2>&1 || { echo "$S: patch does not apply"; git -C /repo reset -q --hard HEAD; continue; }
  line="$S:"
  for c in $CHECKS; do
    out=$(./run.sh $c quick 2>&1); rc=$?
    sig=$(echo "$out" | grep -v '^KNOWN' | grep -o "signature=[^ ]*" | sort | uniq -c | sort -rn | head -3 | awk '{print $2}' | sed 's/signature=//' | paste -sd',')
    line="$line $c=exit$rc[$sig]"
    python3 - "$D" "$c" "$rc" "$sig" <<'PY'
import json,sys
d,c,rc,sig=sys.argv[1:5]
m=json.load(open(d+'/meta.json'))
m.setdefault('checks_run_quick',{})[c]="exit=%s %s"%(rc,sig)
m['detected_by']=sorted(k for k,v in m['checks_run_quick'].items() if v.startswith('exit=1') or (v.startswith('violations=') and not v.startswith('violations=0')))
json.dump(m,open(d+'/meta.json','w'),indent=1)
PY
  done
  git -C /repo reset -q --hard HEAD
  echo "$line"
done
