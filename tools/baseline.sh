#!/bin/bash
# Runs the repository's own suite with the verif guard OFF and compares with the
# 141 stable tests of /root/.vp/BASELINE.json. Exit 0 iff every stable test passed.
export GOFLAGS=-mod=mod GOPROXY=off GOSUMDB=off GOTOOLCHAIN=local
cd /repo || exit 2
out=$(mktemp)
go test -json -vet=off -count=1 -timeout 25m ./... > "$out" 2>&1
python3 - "$out" <<'PY'
import json, sys
base = json.load(open("/root/.vp/BASELINE.json"))
res = {}
for l in open(sys.argv[1]):
    try: e = json.loads(l)
    except Exception: continue
    if e.get("Test") and e.get("Action") in ("pass", "fail", "skip"):
        res[e["Package"] + "::" + e["Test"]] = e["Action"]
bad = [t for t in base["stable_pass"] if res.get(t) != "pass"]
print("stable tests passing: %d/%d" % (len(base["stable_pass"]) - len(bad), len(base["stable_pass"])))
for t in bad: print("NOT PASSING", t, res.get(t))
sys.exit(1 if bad else 0)
PY
rc=$?; rm -f "$out"; exit $rc
