package twin

import (
	"fmt"
	"math/rand"
	"os"
	"path/filepath"
	"strings"
	"unicode/utf8"

	"golang.org/x/sys/unix"
)

// Primitive syscalls. Each performs exactly one filesystem syscall that can
// raise notifications and then lets the session drain the shadow, so the shadow
// log is the exact, unmerged list of kernel notifications.

func (s *Session) Creat(p string) error {
	fd, err := unix.Open(p, unix.O_CREAT|unix.O_EXCL|unix.O_WRONLY|unix.O_CLOEXEC, 0o644)
	if err == nil {
		unix.Close(fd)
	}
	s.Step("creat " + p)
	return err
}

func (s *Session) Write(p string, n int) error {
	fd, err := unix.Open(p, unix.O_WRONLY|unix.O_APPEND|unix.O_CLOEXEC, 0)
	if err != nil {
		s.Step("write(open failed) " + p)
		return err
	}
	s.Step("open " + p)
	_, err = unix.Write(fd, []byte(strings.Repeat("x", n)))
	s.Step(fmt.Sprintf("write %s %d", p, n))
	unix.Close(fd)
	s.Step("close " + p)
	return err
}

func (s *Session) Truncate(p string, n int64) error {
	err := unix.Truncate(p, n)
	s.Step(fmt.Sprintf("truncate %s %d", p, n))
	return err
}

func (s *Session) OpenTrunc(p string) error {
	fd, err := unix.Open(p, unix.O_WRONLY|unix.O_TRUNC|unix.O_CLOEXEC, 0)
	s.Step("open(O_TRUNC) " + p)
	if err == nil {
		unix.Close(fd)
		s.Step("close " + p)
	}
	return err
}

func (s *Session) Chmod(p string, mode uint32) error {
	err := unix.Chmod(p, mode)
	s.Step(fmt.Sprintf("chmod %s %o", p, mode))
	return err
}

func (s *Session) Utimes(p string) error {
	tv := []unix.Timeval{{Sec: 1000000000}, {Sec: 1000000001}}
	err := unix.Utimes(p, tv)
	s.Step("utimes " + p)
	return err
}

func (s *Session) Unlink(p string) error {
	err := unix.Unlink(p)
	s.Step("unlink " + p)
	return err
}

func (s *Session) Mkdir(p string) error {
	err := unix.Mkdir(p, 0o755)
	s.Step("mkdir " + p)
	return err
}

func (s *Session) Rmdir(p string) error {
	err := unix.Rmdir(p)
	s.Step("rmdir " + p)
	return err
}

func (s *Session) Rename(a, b string) error {
	err := unix.Rename(a, b)
	s.Step("rename " + a + " -> " + b)
	return err
}

func (s *Session) Link(a, b string) error {
	err := unix.Link(a, b)
	s.Step("link " + a + " " + b)
	return err
}

func (s *Session) Symlink(target, p string) error {
	err := unix.Symlink(target, p)
	s.Step("symlink " + target + " <- " + p)
	return err
}

// Hold opens p read-only and keeps the descriptor.
func (s *Session) Hold(p string) (int, error) {
	fd, err := unix.Open(p, unix.O_RDWR|unix.O_APPEND|unix.O_CLOEXEC, 0)
	if err != nil { // a directory
		fd, err = unix.Open(p, unix.O_RDONLY|unix.O_CLOEXEC, 0)
	}
	s.Step("hold " + p)
	return fd, err
}

// TouchHeld changes the file through a held descriptor (write or fchmod): works whether or not the file
// still has a name.
func (s *Session) TouchHeld(fd int, write bool) {
	if write {
		unix.Write(fd, []byte("h"))
		s.Step(fmt.Sprintf("write through fd %d", fd))
	} else {
		unix.Fchmod(fd, 0o640)
		s.Step(fmt.Sprintf("fchmod fd %d", fd))
	}
}

func (s *Session) Release(fd int) {
	unix.Close(fd)
	s.Step(fmt.Sprintf("release fd %d", fd))
}

// RmRF removes a tree with one unlink/rmdir primitive per entry (rm -r as a driver loop).
func (s *Session) RmRF(p string) {
	fi, err := os.Lstat(p)
	if err != nil {
		return
	}
	if fi.IsDir() {
		ents, _ := os.ReadDir(p)
		for _, e := range ents {
			s.RmRF(filepath.Join(p, e.Name()))
		}
		s.Rmdir(p)
		return
	}
	s.Unlink(p)
}

// ------------------------------------------------------------------ names

// NameLengths are the byte lengths the brief asks for: every residue of the
// kernel's 16-byte padding, around each multiple of 16, and the maximum.
var NameLengths = []int{1, 2, 3, 4, 5, 6, 7, 8, 9, 10, 11, 12, 13, 14, 15, 16, 17, 18, 20, 21, 23, 24, 25, 27, 30, 31, 32, 33, 34, 40, 47, 48, 49, 60, 63, 64, 65, 79, 80, 81, 100, 111, 112, 113, 127, 128, 129, 150, 175, 176, 177, 200, 223, 224, 225, 239, 240, 241, 250, 253, 254, 255}

// MakeName builds a file name of exactly n bytes in one of several shapes.
func MakeName(rng *rand.Rand, n int, shape int) string {
	if n < 1 {
		n = 1
	}
	var b []byte
	switch shape % 8 {
	case 0: // plain ascii
		for len(b) < n {
			b = append(b, byte('a'+rng.Intn(26)))
		}
	case 1: // spaces inside
		for len(b) < n {
			if len(b)%3 == 1 {
				b = append(b, ' ')
			} else {
				b = append(b, byte('A'+rng.Intn(26)))
			}
		}
	case 2: // leading dot
		b = append(b, '.')
		for len(b) < n {
			b = append(b, byte('a'+rng.Intn(26)))
		}
		if n == 1 || (n == 2 && b[1] == '.') {
			b = []byte(strings.Repeat("d", n)) // "." and ".." are not names
		}
	case 3: // leading dash
		b = append(b, '-')
		for len(b) < n {
			b = append(b, byte('a'+rng.Intn(26)))
		}
	case 4: // multi-byte UTF-8, cut so the BYTE length is exact
		runes := []rune("üñíçødéλжя日本語🙂")
		for len(b) < n {
			r := runes[rng.Intn(len(runes))]
			if len(b)+utf8.RuneLen(r) > n {
				b = append(b, 'u')
				continue
			}
			b = utf8.AppendRune(b, r)
		}
	case 5: // bytes >= 0x80 that are not valid UTF-8
		for len(b) < n {
			b = append(b, byte(0x80+rng.Intn(0x7f)))
		}
	case 6: // ends in bytes adjacent to NUL / control characters
		for len(b) < n-1 {
			b = append(b, byte('a'+rng.Intn(26)))
		}
		b = append(b, []byte{0x01, 0x02, 0x7f, ' ', '\t', '\n'}[rng.Intn(6)])
	default: // digits and punctuation
		set := []byte("0123456789_+=,;:!@#$%^&()[]{}'\"")
		for len(b) < n {
			b = append(b, set[rng.Intn(len(set))])
		}
	}
	for i := range b {
		if b[i] == '/' || b[i] == 0 {
			b[i] = '_'
		}
	}
	if string(b) == "." || string(b) == ".." {
		b[0] = 'x'
	}
	return string(b[:n])
}

// Names returns k distinct names covering the shapes and, when long is set,
// the padding-boundary lengths.
func Names(rng *rand.Rand, k int, long bool) []string {
	seen := map[string]bool{}
	var out []string
	for len(out) < k {
		n := 1 + rng.Intn(12)
		if long && rng.Intn(2) == 0 {
			n = NameLengths[rng.Intn(len(NameLengths))]
		}
		nm := MakeName(rng, n, rng.Intn(8))
		if seen[nm] {
			continue
		}
		seen[nm] = true
		out = append(out, nm)
	}
	return out
}
