package twin

import (
	"fmt"
	"os"
	"runtime/debug"
	"sort"
	"strconv"
	"strings"

	"github.com/fsnotify/fsnotify"
)

// Mark is one kernel-side inotify mark as /proc/self/fdinfo shows it.
type Mark struct {
	Wd   uint32
	Ino  uint64
	Mask uint32
}

// KernelMarks parses /proc/self/fdinfo/<fd>.
func KernelMarks(fd int) (map[uint32]Mark, error) {
	b, err := os.ReadFile(fmt.Sprintf("/proc/self/fdinfo/%d", fd))
	if err != nil {
		return nil, err
	}
	out := map[uint32]Mark{}
	for _, l := range strings.Split(string(b), "\n") {
		if !strings.HasPrefix(l, "inotify wd:") {
			continue
		}
		var m Mark
		for _, f := range strings.Fields(l)[1:] {
			kv := strings.SplitN(f, ":", 2)
			if len(kv) != 2 {
				continue
			}
			v, _ := strconv.ParseUint(kv[1], 16, 64)
			switch kv[0] {
			case "wd":
				m.Wd = uint32(v)
			case "ino":
				m.Ino = v
			case "mask":
				m.Mask = uint32(v)
			}
		}
		out[m.Wd] = m
	}
	return out, nil
}

// InotifyFds counts this process's inotify descriptors.
func InotifyFds() int {
	ents, err := os.ReadDir("/proc/self/fd")
	if err != nil {
		return -1
	}
	n := 0
	for _, e := range ents {
		if l, err := os.Readlink("/proc/self/fd/" + e.Name()); err == nil && l == "anon_inode:inotify" {
			n++
		}
	}
	return n
}

func OpenFds() int {
	ents, err := os.ReadDir("/proc/self/fd")
	if err != nil {
		return -1
	}
	return len(ents)
}

// Invariant compares kernel marks, the two bookkeeping tables and WatchList of
// w at a quiescent point. Returns "" when they agree.
func Invariant(w *fsnotify.Watcher) (bad string, nmarks int) {
	fd := fsnotify.VerifInotifyFd(w)
	marks, err := KernelMarks(fd)
	if err != nil {
		return "fdinfo unreadable: " + err.Error(), 0
	}
	wdT, pathT := fsnotify.VerifTables(w)
	var k, t []int
	for wd := range marks {
		k = append(k, int(wd))
	}
	for wd := range wdT {
		t = append(t, int(wd))
	}
	sort.Ints(k)
	sort.Ints(t)
	var p []string
	if fmt.Sprint(k) != fmt.Sprint(t) {
		p = append(p, fmt.Sprintf("kernel marks %v != wd table %v", k, t))
	}
	if len(pathT) != len(wdT) {
		p = append(p, fmt.Sprintf("|path table|=%d |wd table|=%d", len(pathT), len(wdT)))
	}
	for path, wd := range pathT {
		ww, ok := wdT[wd]
		if !ok || ww.Path != path {
			p = append(p, fmt.Sprintf("path entry %q -> wd %d has no matching wd entry (%+v)", path, wd, ww))
		}
	}
	for wd, ww := range wdT {
		if ww.Wd != wd {
			p = append(p, fmt.Sprintf("wd entry %d holds wd %d (%q)", wd, ww.Wd, ww.Path))
		}
		if pw, ok := pathT[ww.Path]; !ok || pw != wd {
			p = append(p, fmt.Sprintf("wd entry %d (%q) has no matching path entry", wd, ww.Path))
		}
	}
	wl := w.WatchList()
	sort.Strings(wl)
	var pk []string
	for path := range pathT {
		pk = append(pk, path)
	}
	sort.Strings(pk)
	if strings.Join(wl, "\x00") != strings.Join(pk, "\x00") {
		p = append(p, fmt.Sprintf("WatchList %q != path table keys %q", wl, pk))
	}
	return strings.Join(p, "; "), len(marks)
}

// Protect runs f and turns a panic on this goroutine into a string.
func Protect(f func() error) (err error, panicked string) {
	defer func() {
		if r := recover(); r != nil {
			st := string(debug.Stack())
			fr := ""
			for _, l := range strings.Split(st, "\n") {
				if strings.HasPrefix(l, "github.com/fsnotify/fsnotify.") {
					fr = strings.TrimPrefix(l, "github.com/fsnotify/fsnotify.")
					if i := strings.LastIndexByte(fr, '('); i > 0 {
						fr = fr[:i]
					}
					break
				}
			}
			panicked = fmt.Sprintf("%v @%s", r, fr)
		}
	}()
	return f(), ""
}
