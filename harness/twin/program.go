package twin

import (
	"errors"
	"fmt"
	"math/rand"
	"os"
	"path/filepath"
	"strings"
	"time"

	"github.com/fsnotify/fsnotify"
)

// Config of one random strict-mode program.
type Config struct {
	Steps       int
	Dirs        int  // candidate directories d0..d{n-1}
	BufSize     int  // <0: NewWatcher
	LongNames   bool // use padding-boundary lengths
	NNames      int
	PauseBias   int           // 1 in PauseBias steps pauses the consumer (0: never)
	Delay       time.Duration // per-receive consumer delay
	SyncEvery   int           // average steps between voluntary syncs
	AddBias     int           // weight of Add/Remove ops out of 17+AddBias (0: none after PreAdd)
	NoFiles     bool          // never add file watches
	Nested      bool          // also operate in nested unwatched subdirectories
	PreAdd      int           // directories added before the first step
	KeepGoing   bool          // do not stop at a WatchList/result mismatch (C01-C03: the stream is their subject; the model is the spec)
	StartPaused bool          // pause the consumer right after the initial Adds
	NoDot       bool          // never use the working directory itself (".") as a watched directory
}

type WindowDiff struct {
	Diff Diff     `json:"diff"`
	Want []Ev     `json:"want"`
	Got  []Ev     `json:"got"`
	Log  []string `json:"log_tail"`
}

// Report is everything the monitors observed during one program.
type Report struct {
	Steps      int
	Windows    int
	Expected   int
	Received   int
	Diffs      []WindowDiff
	Errors     []string // values seen on Errors
	ErrLog     [][]string
	ListDiffs  []string // WatchList != model
	ResDiffs   []string // Add/Remove result class != model
	Predicates []string // direct predicates on received values
	Hang       string   // goroutine dump when a barrier timed out
	HangLog    []string
	D5         []D5
	OpKinds    map[string]int
	RawSeen    int
	MaxRaw     int
	Masks      map[uint32]int
	NameLens   map[int]int
	MaxPending int // largest number of expected events pending at a sync
	Adds       int
	Removes    int
	Broken     string
	FinalLog   []string
	Names      map[string]int // when non-nil: every received name, counted
	KeepGoing  bool
}

func (r *Report) fail() bool {
	if r.KeepGoing {
		return len(r.Diffs)+len(r.Predicates) > 0 || r.Hang != ""
	}
	return len(r.Diffs)+len(r.ListDiffs)+len(r.ResDiffs)+len(r.Predicates) > 0 || r.Hang != ""
}

// Spell returns one of the equivalent spellings of rel (relative to base, which is the cwd).
func Spell(rng *rand.Rand, base, rel string) string {
	switch rng.Intn(8) {
	case 0, 1:
		return filepath.Join(base, rel)
	case 2:
		return "./" + rel
	case 3:
		return "/" + filepath.Join(base, rel) // //abs
	case 4:
		d := filepath.Dir(rel)
		if d == "." {
			return "x/../" + rel // lexical only: Clean removes it before any syscall
		}
		return d + "/../" + filepath.Base(d) + "/" + filepath.Base(rel) // a/b/../b/c for a/b/c
	case 5:
		return rel + "/"
	}
	return rel
}

// validName reports whether name is the watched path itself or a direct child of it.
func validName(name string, paths map[string]bool) bool {
	if paths[name] {
		return true
	}
	i := strings.LastIndexByte(name, '/')
	return i > 0 && paths[name[:i]]
}

// Sync takes a barrier and compares the window. It fills rep and returns false
// when the session cannot go on.
func (s *Session) Sync(rep *Report, checkList bool) bool {
	ok, dump := s.Barrier()
	if !ok {
		rep.Hang = dump
		rep.HangLog = append([]string{}, s.Tail(30)...)
		// what arrived on Errors before the stall is an observation, not a timing verdict
		_, _, errs := s.Take()
		for i, e := range errs {
			if i == 5 {
				break
			}
			rep.Errors = append(rep.Errors, e.Error())
			rep.ErrLog = append(rep.ErrLog, append([]string{}, s.Tail(12)...))
		}
		return false
	}
	want, got, errs := s.Take()
	rep.Windows++
	rep.Expected += len(want)
	rep.Received += len(got)
	if len(want) > rep.MaxPending {
		rep.MaxPending = len(want)
	}
	for _, e := range errs {
		rep.Errors = append(rep.Errors, e.Error())
		rep.ErrLog = append(rep.ErrLog, append([]string{}, s.Tail(12)...))
	}
	d := Compare(want, got)
	if !d.Empty() && len(rep.Diffs) < 3 {
		rep.Diffs = append(rep.Diffs, WindowDiff{d, clip(want, 60), clip(got, 60), append([]string{}, s.Tail(25)...)})
	}
	// direct predicates on every received value
	for i, e := range got {
		if rep.Names != nil {
			rep.Names[e.Name]++
		}
		if e.Op == 0 {
			rep.Predicates = append(rep.Predicates, fmt.Sprintf("op-zero: event %v has an empty operation set", e))
		}
		if !validName(e.Name, s.WindowPaths) {
			rep.Predicates = append(rep.Predicates, fmt.Sprintf("name-outside-watches: %v is neither a watched path nor a direct child of one (watched: %v)", e, keys(s.WindowPaths)))
		}
		if e.From != "" && (i == 0 || got[i-1].Op&fsnotify.Rename == 0 || got[i-1].Name != e.From) {
			rep.Predicates = append(rep.Predicates, fmt.Sprintf("rename-not-adjacent: %v is not immediately preceded by Rename of %q", e, e.From))
		}
	}
	s.WindowPaths = map[string]bool{}
	for p := range s.Sh.ByPath {
		s.WindowPaths[p] = true
	}
	if checkList {
		l, ml := s.WatchList(), s.ModelList()
		if strings.Join(l, "\x00") != strings.Join(ml, "\x00") {
			rep.ListDiffs = append(rep.ListDiffs, fmt.Sprintf("WatchList=%q model=%q after %v", l, ml, s.Tail(8)))
		}
	}
	if rep.KeepGoing {
		if len(rep.ListDiffs) > 3 {
			rep.ListDiffs = rep.ListDiffs[:3]
		}
		return len(rep.Diffs) == 0
	}
	return len(rep.Diffs) == 0 && len(rep.ListDiffs) == 0
}

func keys(m map[string]bool) []string {
	var k []string
	for p := range m {
		k = append(k, p)
	}
	return k
}
func clip(l []Ev, n int) []Ev {
	if len(l) > n {
		return append(append([]Ev{}, l[:n/2]...), l[len(l)-n/2:]...)
	}
	return l
}

// AddStrict syncs, calls w.Add(sp) and mirrors it on the model, comparing the result class.
func (s *Session) AddStrict(rep *Report, sp string) error {
	if !s.Sync(rep, true) {
		return errors.New("sync failed")
	}
	_, statErr := os.Stat(filepath.Clean(sp))
	err := s.W.Add(sp)
	s.Logf("Add(%q)=%v", sp, err)
	rep.Adds++
	if (err == nil) != (statErr == nil) {
		rep.ResDiffs = append(rep.ResDiffs, fmt.Sprintf("Add(%q)=%v but stat says %v", sp, err, statErr))
	}
	if err == nil {
		if e := s.Sh.Add(sp); e != nil {
			rep.Broken = fmt.Sprintf("shadow add %q: %v", sp, e)
		}
		s.WindowPaths[filepath.Clean(sp)] = true
		for p := range s.Sh.ByPath {
			s.WindowPaths[p] = true
		}
	}
	return err
}

// RemoveStrict syncs, calls w.Remove(sp) and mirrors it.
func (s *Session) RemoveStrict(rep *Report, sp string) error {
	if !s.Sync(rep, true) {
		return errors.New("sync failed")
	}
	err := s.W.Remove(sp)
	had := s.Sh.Remove(sp)
	s.Sh.Drain() // the shadow's own IN_IGNORED
	s.Logf("Remove(%q)=%v", sp, err)
	rep.Removes++
	if had != (err == nil) || (!had && !errors.Is(err, fsnotify.ErrNonExistentWatch)) {
		rep.ResDiffs = append(rep.ResDiffs, fmt.Sprintf("Remove(%q)=%v, model had the path: %v", sp, err, had))
	}
	return err
}

// RunProgram executes one random strict-mode program in dir (which becomes the cwd).
func RunProgram(rng *rand.Rand, dir string, cfg Config) (rep *Report) {
	rep = &Report{OpKinds: map[string]int{}, KeepGoing: cfg.KeepGoing}
	s, err := NewSession(dir, cfg.BufSize)
	if err != nil {
		rep.Broken = "session: " + err.Error()
		return
	}
	defer func() {
		rep.D5 = s.Sh.D5s
		rep.RawSeen, rep.MaxRaw, rep.Masks, rep.NameLens = s.Sh.RawSeen, s.Sh.MaxBatch, s.Sh.Masks, s.Sh.NameLens
		rep.FinalLog = s.Tail(40)
		s.SetDelay(0)
		s.Close()
	}()
	base := s.Base
	if err := os.Chdir(base); err != nil {
		rep.Broken = err.Error()
		return
	}
	if cfg.Dirs < 1 {
		cfg.Dirs = 2
	}
	if cfg.NNames < 2 {
		cfg.NNames = 5
	}
	if cfg.SyncEvery < 1 {
		cfg.SyncEvery = 25
	}
	if cfg.AddBias < 0 {
		cfg.AddBias = 0
	}
	var dirs []string
	for i := 0; i < cfg.Dirs; i++ {
		d := fmt.Sprintf("d%d", i)
		os.Mkdir(d, 0o755)
		dirs = append(dirs, d)
	}
	os.Mkdir("u", 0o755)
	os.Symlink("d0", "l0")
	all := append(append([]string{}, dirs...), "u", "l0")
	if !cfg.NoDot && rng.Intn(4) == 0 {
		// the working directory itself: entries are then named by bare relative names ("f", whose
		// lexical parent is "."), and "." can be watched under the spellings ".", "./", the absolute path
		all = append(all, ".")
		dirs = append(dirs, ".")
		rep.OpKinds["dot-dir-program"]++
	}
	names := Names(rng, cfg.NNames, cfg.LongNames)
	s.SetDelay(cfg.Delay)
	var held []int
	var heldPath []string // the name each held descriptor was opened under
	defer func() {
		for _, fd := range held {
			s.Release(fd)
		}
	}()
	for i := 0; i < cfg.PreAdd && i < len(dirs); i++ {
		if s.AddStrict(rep, Spell(rng, base, dirs[i])) != nil {
			return
		}
	}
	if cfg.StartPaused {
		s.Pause(true)
		s.Logf("consumer paused")
	}
	pick := func() string {
		p := filepath.Join(all[rng.Intn(len(all))], names[rng.Intn(len(names))])
		if cfg.Nested && rng.Intn(5) == 0 {
			p = filepath.Join(p, names[rng.Intn(len(names))])
		}
		return p
	}
	total := 17 + cfg.AddBias
	for i := 0; i < cfg.Steps && !rep.fail() && rep.Broken == ""; i++ {
		rep.Steps++
		p, q := pick(), pick()
		k := rng.Intn(total)
		switch {
		case k <= 1:
			rep.OpKinds["creat"]++
			s.Creat(p)
		case k == 2:
			rep.OpKinds["write"]++
			s.Write(p, 1+rng.Intn(3))
		case k == 3:
			rep.OpKinds["truncate"]++
			if rng.Intn(2) == 0 {
				s.Truncate(p, 0)
			} else {
				s.OpenTrunc(p)
			}
		case k == 4:
			rep.OpKinds["chmod"]++
			if rng.Intn(5) == 0 {
				// the directory itself: a notification WITHOUT an entry name between those of entries
				rep.OpKinds["chmod-of-a-directory-itself"]++
				s.Chmod(all[rng.Intn(len(all))], uint32(0o700+rng.Intn(0o100)|0o700))
			} else if rng.Intn(3) == 0 {
				s.Utimes(p)
			} else {
				s.Chmod(p, uint32(0o600+rng.Intn(0o100)))
			}
		case k <= 6:
			rep.OpKinds["unlink"]++
			if fi, e := os.Lstat(p); e == nil && fi.IsDir() {
				if rng.Intn(2) == 0 {
					s.Rmdir(p)
				} else {
					rep.OpKinds["rm-r"]++
					s.RmRF(p)
				}
			} else {
				s.Unlink(p)
			}
		case k <= 9:
			rep.OpKinds["rename"]++
			s.Rename(p, q)
		case k == 10:
			rep.OpKinds["mkdir"]++
			s.Mkdir(p)
		case k == 11:
			rep.OpKinds["link"]++
			if rng.Intn(3) == 0 {
				s.Symlink(filepath.Join(base, q), p)
			} else {
				s.Link(p, q)
			}
		case k == 12:
			if fd, e := s.Hold(p); e == nil {
				rep.OpKinds["hold"]++
				held = append(held, fd)
				heldPath = append(heldPath, p)
			}
		case k == 13:
			if len(held) > 0 && rng.Intn(5) == 0 && !cfg.NoFiles {
				// (re-)Add the name a held descriptor was opened under: it may be gone (the Add fails and
				// must change nothing: the file and its watch live on), name another file, or be unchanged
				rep.OpKinds["add-of-a-held-name"]++
				s.AddStrict(rep, Spell(rng, base, heldPath[rng.Intn(len(heldPath))]))
			} else if len(held) > 0 && rng.Intn(2) == 0 {
				// change the file through a held descriptor (it may have lost its name meanwhile)
				rep.OpKinds["touch-through-held-descriptor"]++
				s.TouchHeld(held[rng.Intn(len(held))], rng.Intn(2) == 0)
			} else if len(held) > 0 {
				rep.OpKinds["release"]++
				j := rng.Intn(len(held))
				s.Release(held[j])
				held = append(held[:j], held[j+1:]...)
				heldPath = append(heldPath[:j], heldPath[j+1:]...)
			}
		case k == 14:
			if cfg.PauseBias > 0 && rng.Intn(cfg.PauseBias) == 0 {
				rep.OpKinds["pause"]++
				s.Pause(true)
				s.Logf("consumer paused")
			}
		case k <= 16:
			// burst on one name: create, write, chmod, unlink back to back
			rep.OpKinds["burst"]++
			s.Creat(p)
			s.Write(p, 2)
			s.Chmod(p, 0o640)
			if rng.Intn(2) == 0 {
				s.Unlink(p)
			}
		default:
			if rng.Intn(3) > 0 { // Add
				rep.OpKinds["Add"]++
				tgt := p
				if cfg.NoFiles || rng.Intn(3) > 0 {
					tgt = all[rng.Intn(len(all))]
					if rng.Intn(3) == 0 {
						tgt = dirs[rng.Intn(len(dirs))]
					}
				}
				s.AddStrict(rep, Spell(rng, base, tgt))
			} else {
				rep.OpKinds["Remove"]++
				tgt := p
				if rng.Intn(2) == 0 {
					tgt = all[rng.Intn(len(all))]
				}
				sp := Spell(rng, base, tgt)
				if l := s.Sh.Paths(); len(l) > 0 && rng.Intn(2) == 0 {
					sp = l[rng.Intn(len(l))] // a listed spelling, so Remove succeeds often
				}
				s.RemoveStrict(rep, sp)
			}
		}
		if rng.Intn(cfg.SyncEvery) == 0 {
			s.Sync(rep, true)
		}
	}
	if !rep.fail() && rep.Broken == "" {
		s.Sync(rep, true)
	}
	return
}
