package twin

import (
	"errors"
	"fmt"
	"os"
	"path/filepath"
	"regexp"
	"sort"
	"strings"
	"sync"
	"sync/atomic"
	"time"

	"github.com/fsnotify/fsnotify"
	"golang.org/x/sys/unix"

	"harness/core"
)

var sentRe = regexp.MustCompile(`^/s[0-9]+$`)

// WatchdogTimeout only stops hangs; it never decides a verdict by itself.
var WatchdogTimeout = 20 * time.Second

// Session is one Watcher + its shadow + a controllable consumer + the sentinel.
type Session struct {
	W    *fsnotify.Watcher
	Sh   *Shadow
	Base string // working tree (absolute, symlink-free)
	Sent string // sentinel directory (never mirrored to the shadow)

	mu       sync.Mutex
	got      []Ev
	errs     []error
	sig      chan string
	ovf      chan struct{}
	pauseCh  chan bool
	stopCh   chan struct{}
	done     chan struct{}
	delayNs  int64 // per-receive delay (atomic)
	paused   bool
	Received int64 // events received, sentinel included (atomic)

	// OnEvent, when set before the first event, is called in the consumer goroutine for every
	// received non-sentinel event (before it is recorded).
	OnEvent func(Ev)

	Want  []Ev
	Log   []string
	nsent int
	// Window bookkeeping for the direct C02 predicates
	WindowPaths map[string]bool
	closedSeen  int32
}

// NewSession creates the Watcher (bufsize < 0: NewWatcher) and everything around it.
func NewSession(dir string, bufsize int) (*Session, error) {
	return NewSessionAt(filepath.Join(dir, "t"), filepath.Join(dir, "sentinel"), bufsize)
}

// NewSessionAt is NewSession with explicit working tree and sentinel directory
// (several sessions may share one working tree).
func NewSessionAt(base, sent string, bufsize int) (*Session, error) {
	if err := os.MkdirAll(base, 0o755); err != nil {
		return nil, err
	}
	if err := os.MkdirAll(sent, 0o755); err != nil {
		return nil, err
	}
	var (
		w   *fsnotify.Watcher
		err error
	)
	for try := 0; ; try++ {
		if bufsize < 0 {
			w, err = fsnotify.NewWatcher()
		} else {
			w, err = fsnotify.NewBufferedWatcher(uint(bufsize))
		}
		if err == nil || try > 50 || !(errors.Is(err, unix.EMFILE) || errors.Is(err, unix.ENFILE)) {
			break
		}
		time.Sleep(100 * time.Millisecond)
	}
	if err != nil {
		return nil, err
	}
	sh, err := NewShadow()
	if err != nil {
		w.Close()
		return nil, err
	}
	s := &Session{W: w, Sh: sh, Base: base, Sent: sent, sig: make(chan string, 1<<16), ovf: make(chan struct{}, 1024),
		pauseCh: make(chan bool), stopCh: make(chan struct{}), done: make(chan struct{}), WindowPaths: map[string]bool{}}
	if err := w.Add(sent); err != nil {
		s.Close()
		return nil, err
	}
	go s.consume()
	return s, nil
}

func (s *Session) consume() {
	defer close(s.done)
	evc, erc := s.W.Events, s.W.Errors
	for evc != nil || erc != nil {
		ev := evc
		if s.paused {
			ev = nil
		}
		select {
		case <-s.stopCh:
			return
		case p := <-s.pauseCh:
			s.paused = p
		case e, ok := <-ev:
			if !ok {
				evc = nil
				atomic.StoreInt32(&s.closedSeen, 1)
				continue
			}
			atomic.AddInt64(&s.Received, 1)
			if strings.HasPrefix(e.Name, s.Sent+"/") || e.Name == s.Sent {
				if e.Op&fsnotify.Create != 0 {
					s.sig <- e.Name
				}
				continue
			}
			if s.OnEvent != nil {
				s.OnEvent(Ev{e.Name, e.Op, fsnotify.VerifRenamedFrom(e)})
			}
			s.mu.Lock()
			s.got = append(s.got, Ev{e.Name, e.Op, fsnotify.VerifRenamedFrom(e)})
			s.mu.Unlock()
			if d := atomic.LoadInt64(&s.delayNs); d > 0 {
				time.Sleep(time.Duration(d))
			}
		case e, ok := <-erc:
			if !ok {
				erc = nil
				continue
			}
			s.mu.Lock()
			if len(s.errs) < 10000 { // an error flood must not exhaust memory; 10000 witnesses are plenty
				s.errs = append(s.errs, e)
			}
			s.mu.Unlock()
			if errors.Is(e, fsnotify.ErrEventOverflow) {
				select {
				case s.ovf <- struct{}{}:
				default:
				}
			}
		}
	}
}

// Pause stops (true) or resumes (false) receiving from Events; Errors is always read.
func (s *Session) Pause(p bool) {
	select {
	case s.pauseCh <- p:
	case <-s.done:
	}
}

// SetDelay makes the consumer sleep d after every received event.
func (s *Session) SetDelay(d time.Duration) { atomic.StoreInt64(&s.delayNs, int64(d)) }

// Barrier resumes the consumer, creates a sentinel entry and waits until its
// Create has been received: every notification queued before it has then been
// translated and delivered or dropped. On a received overflow a fresh sentinel
// is issued. ok=false: the watchdog fired; dump holds all goroutine stacks.
func (s *Session) Barrier() (ok bool, dump string) {
	s.Pause(false)
	deadline := time.NewTimer(WatchdogTimeout)
	defer deadline.Stop()
	for attempt := 0; attempt < 64; attempt++ {
		s.nsent++
		n := filepath.Join(s.Sent, fmt.Sprintf("s%d", s.nsent))
		fd, err := unix.Open(n, unix.O_CREAT|unix.O_EXCL|unix.O_WRONLY|unix.O_CLOEXEC, 0o644)
		if err == nil {
			unix.Close(fd)
		}
		reissue := false
		for !reissue {
			select {
			case x := <-s.sig:
				if x == n {
					unix.Unlink(n)
					return true, ""
				}
				if !sentRe.MatchString(x[len(s.Sent):]) {
					unix.Unlink(n)
					return false, fmt.Sprintf("sentinel-name-mangled: received %q while waiting for %q", x, n)
				}
			case <-s.ovf:
				reissue = true
			case <-s.done:
				unix.Unlink(n)
				return false, "consumer ended (channels closed) before the sentinel arrived"
			case <-deadline.C:
				unix.Unlink(n)
				return false, core.AllStacks()
			}
		}
		unix.Unlink(n)
	}
	return false, "64 sentinels lost to overflow"
}

// Step records a primitive that has just been executed: the shadow is drained
// and its notifications translated into expected events.
func (s *Session) Step(desc string) []Raw {
	raw := s.Sh.Drain()
	s.Log = append(s.Log, desc)
	s.Want = append(s.Want, s.Sh.Translate(raw)...)
	return raw
}

// Logf appends to the history without draining.
func (s *Session) Logf(f string, a ...interface{}) { s.Log = append(s.Log, fmt.Sprintf(f, a...)) }

// Take returns and clears what was expected and received so far (call after Barrier).
func (s *Session) Take() (want, got []Ev, errs []error) {
	s.mu.Lock()
	got, errs = s.got, s.errs
	s.got, s.errs = nil, nil
	s.mu.Unlock()
	want = s.Want
	s.Want = nil
	return
}

// PeekGot returns a copy of what has been received so far.
func (s *Session) PeekGot() []Ev {
	s.mu.Lock()
	defer s.mu.Unlock()
	return append([]Ev{}, s.got...)
}

// WatchList returns the Watcher's list without the sentinel, sorted.
func (s *Session) WatchList() []string {
	var l []string
	for _, p := range s.W.WatchList() {
		if p != s.Sent {
			l = append(l, p)
		}
	}
	sort.Strings(l)
	return l
}

func (s *Session) ModelList() []string {
	l := s.Sh.Paths()
	sort.Strings(l)
	return l
}

func (s *Session) Tail(n int) []string {
	if len(s.Log) > n {
		return s.Log[len(s.Log)-n:]
	}
	return s.Log
}

func (s *Session) Close() {
	ok, _ := core.WithWatchdog(WatchdogTimeout, func() { s.W.Close() })
	if ok {
		select {
		case <-s.done:
		case <-time.After(WatchdogTimeout):
			close(s.stopCh)
		}
	} else {
		close(s.stopCh)
	}
	s.Sh.Close()
}

// ------------------------------------------------------------- comparison

type rkey struct {
	Name string
	Op   fsnotify.Op
}

type run struct {
	k   rkey
	evs []Ev
}

// runs cuts a stream into maximal runs of events with the same name and
// operation set. The kernel coalesces a notification with the queue's tail when
// wd, mask and name are equal (it does NOT compare rename cookies, and keeps
// the first one's), so inside such a run later events may have been merged
// into earlier ones.
func runs(l []Ev) []run {
	var out []run
	for _, e := range l {
		k := rkey{e.Name, e.Op}
		if len(out) > 0 && out[len(out)-1].k == k {
			out[len(out)-1].evs = append(out[len(out)-1].evs, e)
		} else {
			out = append(out, run{k, []Ev{e}})
		}
	}
	return out
}

// matchRun: got must be a non-empty subsequence of want (merging drops later
// elements, never invents or reorders). Returns unmatched got events.
func matchRun(want, got []Ev) (extra []Ev) {
	i := 0
	for _, g := range got {
		for i < len(want) && want[i] != g {
			i++
		}
		if i == len(want) {
			extra = append(extra, g)
			continue
		}
		i++
	}
	return extra
}

// Diff is the classified difference between expected and received streams.
type Diff struct {
	Missing   []Ev // expected, never received                       -> C01
	Extra     []Ev // received, not expected (or more often than it) -> C02
	Reordered []Ev // present on both sides, at different positions  -> C03
}

func (d Diff) Empty() bool { return len(d.Missing)+len(d.Extra)+len(d.Reordered) == 0 }
func (d Diff) String() string {
	return fmt.Sprintf("missing=%v extra=%v reordered=%v", d.Missing, d.Extra, d.Reordered)
}

// Compare aligns the streams run by run. A received run may be shorter than
// the expected one (kernel tail coalescing in the library's undrained queue;
// the shadow's queue is drained after every syscall and never merges), never
// longer, and never empty.
func Compare(want, got []Ev) Diff {
	wr, gr := runs(want), runs(got)
	// fast path
	if len(wr) == len(gr) {
		same := true
		for i := range wr {
			if wr[i].k != gr[i].k || len(matchRun(wr[i].evs, gr[i].evs)) > 0 {
				same = false
				break
			}
		}
		if same {
			return Diff{}
		}
	}
	n, m := len(wr), len(gr)
	if n*m > 25_000_000 {
		return multisetDiff(wr, gr)
	}
	L := make([][]int32, n+1)
	for i := range L {
		L[i] = make([]int32, m+1)
	}
	for i := n - 1; i >= 0; i-- {
		for j := m - 1; j >= 0; j-- {
			if wr[i].k == gr[j].k {
				L[i][j] = L[i+1][j+1] + 1
			} else if L[i+1][j] >= L[i][j+1] {
				L[i][j] = L[i+1][j]
			} else {
				L[i][j] = L[i][j+1]
			}
		}
	}
	var miss, extra []Ev
	i, j := 0, 0
	for i < n && j < m {
		switch {
		case wr[i].k == gr[j].k:
			extra = append(extra, matchRun(wr[i].evs, gr[j].evs)...)
			i++
			j++
		case L[i+1][j] >= L[i][j+1]:
			miss = append(miss, wr[i].evs...)
			i++
		default:
			extra = append(extra, gr[j].evs...)
			j++
		}
	}
	for ; i < n; i++ {
		miss = append(miss, wr[i].evs...)
	}
	for ; j < m; j++ {
		extra = append(extra, gr[j].evs...)
	}
	return classify(miss, extra)
}

// classify pairs missing and extra events with the same name and operations:
// those are present on both sides at different positions (order), the rest is
// lost or phantom. Because a run may legitimately shrink, only one missing
// event per unmatched run counts (the others could have been merged).
func classify(miss, extra []Ev) Diff {
	var d Diff
	cnt := map[rkey]int{}
	for _, e := range extra {
		cnt[rkey{e.Name, e.Op}]++
	}
	used := map[rkey]int{}
	for _, e := range miss {
		k := rkey{e.Name, e.Op}
		if cnt[k] > 0 {
			cnt[k]--
			used[k]++
			d.Reordered = append(d.Reordered, e)
		} else {
			d.Missing = append(d.Missing, e)
		}
	}
	for _, e := range extra {
		k := rkey{e.Name, e.Op}
		if used[k] > 0 {
			used[k]--
			continue
		}
		d.Extra = append(d.Extra, e)
	}
	return d
}

func multisetDiff(wr, gr []run) Diff {
	var d Diff
	wc, gc := map[rkey]int{}, map[rkey]int{}
	for _, r := range wr {
		wc[r.k] += len(r.evs)
	}
	for _, r := range gr {
		gc[r.k] += len(r.evs)
	}
	for _, r := range wr {
		if gc[r.k] == 0 {
			d.Missing = append(d.Missing, r.evs[0])
			gc[r.k] = -1
		}
	}
	for _, r := range gr {
		if gc[r.k] > wc[r.k] {
			d.Extra = append(d.Extra, r.evs[0])
			gc[r.k] = 0
		}
	}
	return d
}
