// Package twin is the E-twin engine: a raw inotify instance owned by the
// harness mirrors the Watcher's watch set, is drained after every primitive
// syscall, and an independent reference translator turns that ground-truth
// kernel log into the event stream the documentation promises.
package twin

import (
	"encoding/binary"
	"fmt"
	"path/filepath"
	"strings"
	"syscall"

	"github.com/fsnotify/fsnotify"
	"golang.org/x/sys/unix"
)

// RefMask is the harness's own statement of which native flags the five
// default operations need (never read from the library).
const RefMask = unix.IN_CREATE | unix.IN_MODIFY | unix.IN_DELETE | unix.IN_DELETE_SELF |
	unix.IN_MOVED_TO | unix.IN_MOVED_FROM | unix.IN_MOVE_SELF | unix.IN_ATTRIB

type Raw struct {
	Wd     int32  `json:"wd"`
	Mask   uint32 `json:"mask"`
	Cookie uint32 `json:"cookie,omitempty"`
	Name   string `json:"name,omitempty"`
}

func (r Raw) String() string {
	return fmt.Sprintf("{wd=%d %s %q c=%d}", r.Wd, MaskString(r.Mask), r.Name, r.Cookie)
}

// Ev is one portable event as the consumer sees it.
type Ev struct {
	Name string      `json:"name"`
	Op   fsnotify.Op `json:"op"`
	From string      `json:"from,omitempty"`
}

func (e Ev) String() string {
	if e.From != "" {
		return fmt.Sprintf("%s %q<-%q", e.Op, e.Name, e.From)
	}
	return fmt.Sprintf("%s %q", e.Op, e.Name)
}

// SW is one model watch.
type SW struct {
	Path           string // cleaned spelling of the first Add
	Ino            uint64
	Pino           uint64 // inode of the directory holding the watched entry at Add time
	Base           string // its name there
	ParentReported bool   // a watch on that directory reported IN_DELETE for it
	Overwritten    bool   // a watch on that directory reported IN_MOVED_TO onto its name (rename-overwrite: no IN_DELETE follows)
	Recurse        bool
	Plain          bool // in Recursive mode: an ordinary (non-recursive) watch, whose IN_MOVE_SELF ends it as usual
}

type D5 struct {
	Kind string `json:"kind"` // late-parent-add | overwritten-by-rename | parent-other-spelling
	Path string `json:"path"`
}

type Shadow struct {
	Fd      int
	W       map[int32]*SW
	ByPath  map[string]int32
	Cookies map[uint32]string
	D5s     []D5
	// statistics
	RawSeen   int
	Masks     map[uint32]int
	MaxBatch  int
	NameLens  map[int]int
	Lexical   bool // follow the library's lexical parent rule (default true)
	LastRaw   []Raw
	Ended     []string // paths whose watch ended (kernel-side) since last TakeEnded
	Recursive bool     // C19 mode: ignore IN_MOVE_SELF, watches keyed by true path
}

func NewShadow() (*Shadow, error) {
	fd, err := unix.InotifyInit1(unix.IN_NONBLOCK | unix.IN_CLOEXEC)
	if err != nil {
		return nil, err
	}
	return &Shadow{Fd: fd, W: map[int32]*SW{}, ByPath: map[string]int32{}, Cookies: map[uint32]string{}, Masks: map[uint32]int{}, NameLens: map[int]int{}, Lexical: true}, nil
}

func (s *Shadow) Close() { unix.Close(s.Fd) }

func InoOf(p string) uint64 {
	var st syscall.Stat_t
	if syscall.Stat(p, &st) != nil {
		return 0
	}
	return st.Ino
}
func LInoOf(p string) uint64 {
	var st syscall.Stat_t
	if syscall.Lstat(p, &st) != nil {
		return 0
	}
	return st.Ino
}

// Add mirrors a successful w.Add(p) (default options) onto the model: same
// inode => first spelling wins; a listed path that now names another inode
// moves its watch there and releases the old one.
func (s *Shadow) Add(p string) error {
	p = filepath.Clean(p)
	wd, err := unix.InotifyAddWatch(s.Fd, p, RefMask)
	if err != nil {
		return err
	}
	if old, ok := s.ByPath[p]; ok && old != int32(wd) { // re-pointed
		unix.InotifyRmWatch(s.Fd, uint32(old))
		delete(s.W, old)
		delete(s.ByPath, p)
	}
	if _, ok := s.W[int32(wd)]; ok {
		return nil
	}
	rp, e := filepath.EvalSymlinks(p)
	if e != nil {
		rp = p
	}
	if !filepath.IsAbs(rp) {
		if a, e := filepath.Abs(rp); e == nil {
			rp = a
		}
	}
	s.W[int32(wd)] = &SW{Path: p, Pino: InoOf(filepath.Dir(rp)), Base: filepath.Base(rp), Ino: InoOf(p)}
	s.ByPath[p] = int32(wd)
	return nil
}

// AddAs adds a raw watch on real path p but names it as (C19: the true current
// path of a directory inside a recursive root).
func (s *Shadow) AddAs(real, as string) error {
	wd, err := unix.InotifyAddWatch(s.Fd, real, RefMask)
	if err != nil {
		return err
	}
	if _, ok := s.W[int32(wd)]; ok {
		return nil
	}
	s.W[int32(wd)] = &SW{Path: as, Ino: InoOf(real), Recurse: true}
	s.ByPath[as] = int32(wd)
	return nil
}

// Remove mirrors w.Remove(p); reports whether the model had the path.
func (s *Shadow) Remove(p string) bool {
	p = filepath.Clean(p)
	wd, ok := s.ByPath[p]
	if !ok {
		return false
	}
	unix.InotifyRmWatch(s.Fd, uint32(wd))
	delete(s.W, wd)
	delete(s.ByPath, p)
	return true
}

func (s *Shadow) Paths() []string {
	out := make([]string, 0, len(s.ByPath))
	for p := range s.ByPath {
		out = append(out, p)
	}
	return out
}

// Drain reads the (non-blocking) shadow descriptor to EAGAIN.
func (s *Shadow) Drain() (out []Raw) {
	var buf [65536]byte
	for {
		n, err := unix.Read(s.Fd, buf[:])
		if err != nil || n <= 0 {
			break
		}
		for off := 0; off+16 <= n; {
			l := int(binary.LittleEndian.Uint32(buf[off+12:]))
			r := Raw{Wd: int32(binary.LittleEndian.Uint32(buf[off:])), Mask: binary.LittleEndian.Uint32(buf[off+4:]), Cookie: binary.LittleEndian.Uint32(buf[off+8:])}
			if l > 0 {
				r.Name = strings.TrimRight(string(buf[off+16:off+16+l]), "\x00")
				s.NameLens[len(r.Name)]++
			}
			out = append(out, r)
			off += 16 + l
		}
	}
	s.RawSeen += len(out)
	if len(out) > s.MaxBatch {
		s.MaxBatch = len(out)
	}
	for _, r := range out {
		s.Masks[r.Mask&^unix.IN_ISDIR]++
	}
	s.LastRaw = out
	return out
}

// OpsOf is the reference mask->operations table, written from the docs.
func OpsOf(mask uint32) fsnotify.Op {
	var op fsnotify.Op
	if mask&(unix.IN_CREATE|unix.IN_MOVED_TO) != 0 {
		op |= fsnotify.Create
	}
	if mask&(unix.IN_DELETE|unix.IN_DELETE_SELF) != 0 {
		op |= fsnotify.Remove
	}
	if mask&unix.IN_MODIFY != 0 {
		op |= fsnotify.Write
	}
	if mask&(unix.IN_MOVED_FROM|unix.IN_MOVE_SELF) != 0 {
		op |= fsnotify.Rename
	}
	if mask&unix.IN_ATTRIB != 0 {
		op |= fsnotify.Chmod
	}
	return op
}

// Translate applies the documented semantics to the notifications of ONE
// primitive syscall, in order, and updates the model watch set.
func (s *Shadow) Translate(batch []Raw) (out []Ev) {
	// which file watches had their removal reported by a watch on their directory?
	for _, r := range batch {
		if r.Mask&(unix.IN_DELETE|unix.IN_MOVED_TO) != 0 {
			if pw, ok := s.W[r.Wd]; ok {
				for _, fw := range s.W {
					if fw.Pino == pw.Ino && fw.Base == r.Name {
						if r.Mask&unix.IN_DELETE != 0 {
							fw.ParentReported = true
						} else {
							fw.Overwritten = true
						}
					}
				}
			}
		}
	}
	for _, r := range batch {
		w, ok := s.W[r.Wd]
		if !ok {
			continue
		}
		name := w.Path
		if r.Name != "" {
			name += "/" + r.Name
		}
		if r.Mask&(unix.IN_IGNORED|unix.IN_UNMOUNT) != 0 {
			delete(s.W, r.Wd)
			if s.ByPath[w.Path] == r.Wd {
				delete(s.ByPath, w.Path)
			}
			s.Ended = append(s.Ended, w.Path)
			continue
		}
		if s.Recursive && !w.Plain && r.Mask&unix.IN_MOVE_SELF != 0 {
			continue
		}
		if r.Mask&(unix.IN_DELETE_SELF|unix.IN_MOVE_SELF) != 0 {
			delete(s.W, r.Wd)
			if s.ByPath[w.Path] == r.Wd {
				delete(s.ByPath, w.Path)
			}
			s.Ended = append(s.Ended, w.Path)
			if r.Mask&unix.IN_MOVE_SELF != 0 {
				unix.InotifyRmWatch(s.Fd, uint32(r.Wd))
			}
		}
		if r.Mask&unix.IN_DELETE_SELF != 0 {
			_, lexical := s.ByPath[filepath.Dir(w.Path)]
			if lexical != w.ParentReported && !s.Recursive {
				if lexical && w.Overwritten {
					s.D5s = append(s.D5s, D5{"overwritten-by-rename", w.Path})
				} else if lexical {
					s.D5s = append(s.D5s, D5{"late-parent-add", w.Path})
				} else {
					s.D5s = append(s.D5s, D5{"parent-other-spelling", w.Path})
				}
			}
			suppress := w.ParentReported
			if s.Lexical || s.Recursive {
				suppress = lexical // follow the library so the rest of the history stays comparable
			}
			if suppress {
				continue
			}
		}
		e := Ev{Name: name, Op: OpsOf(r.Mask)}
		if r.Cookie != 0 {
			if r.Mask&unix.IN_MOVED_FROM != 0 {
				s.Cookies[r.Cookie] = name
			} else if r.Mask&unix.IN_MOVED_TO != 0 {
				e.From = s.Cookies[r.Cookie]
			}
		}
		if e.Op != 0 {
			out = append(out, e)
		}
	}
	return out
}

var maskNames = []struct {
	m uint32
	n string
}{
	{unix.IN_ACCESS, "ACCESS"}, {unix.IN_MODIFY, "MODIFY"}, {unix.IN_ATTRIB, "ATTRIB"}, {unix.IN_CLOSE_WRITE, "CLOSE_WRITE"},
	{unix.IN_CLOSE_NOWRITE, "CLOSE_NOWRITE"}, {unix.IN_OPEN, "OPEN"}, {unix.IN_MOVED_FROM, "MOVED_FROM"}, {unix.IN_MOVED_TO, "MOVED_TO"},
	{unix.IN_CREATE, "CREATE"}, {unix.IN_DELETE, "DELETE"}, {unix.IN_DELETE_SELF, "DELETE_SELF"}, {unix.IN_MOVE_SELF, "MOVE_SELF"},
	{unix.IN_UNMOUNT, "UNMOUNT"}, {unix.IN_Q_OVERFLOW, "Q_OVERFLOW"}, {unix.IN_IGNORED, "IGNORED"}, {unix.IN_ISDIR, "ISDIR"},
}

func MaskString(m uint32) string {
	var p []string
	for _, x := range maskNames {
		if m&x.m != 0 {
			p = append(p, x.n)
		}
	}
	if len(p) == 0 {
		return fmt.Sprintf("%#x", m)
	}
	return strings.Join(p, "|")
}
