#!/bin/bash
# gen.sh [race] — copy + transform the kqueue backend and extract the Windows/FEN
# translation functions from /repo's working tree into a temp module, build
# /verif/bin/vgen[.race] from it, remove the temp module.
set -eu
HERE="$(cd "$(dirname "$0")" && pwd)"
VERIF_DIR="${VERIF_DIR:-$(cd "$HERE/../.." && pwd)}"
export GOFLAGS=-mod=mod GOPROXY=off GOSUMDB=off GOTOOLCHAIN=local
SRC="${VERIF_REPO:-/repo}"
T="$(mktemp -d /tmp/vgen.XXXXXX)"
if [ -z "${VGEN_KEEP:-}" ]; then trap 'rm -rf "$T"' EXIT; else echo "kept $T"; fi
cp -r "$HERE/tmpl/." "$T/"
cp "$VERIF_DIR/harness/go.sum" "$T/go.sum" 2>/dev/null || true
sed -i "s#=> /verif/harness#=> $VERIF_DIR/harness#" "$T/go.mod"
mkdir -p "$T/kqfsnotify" "$T/winx" "$T/fenx"
for f in backend_kqueue.go shared.go fsnotify.go verif_off.go; do
  sed -e 's#"golang.org/x/sys/unix"#unix "kqsim/simunix"#' \
      -e 's#"github.com/fsnotify/fsnotify/internal"#internal "kqsim/siminternal"#' \
      -e '/^\/\/go:build/d' "$SRC/$f" > "$T/kqfsnotify/$f"
done
cp "$T/kqexport.go.txt" "$T/kqfsnotify/zz_export.go"
# Windows / FEN: extract the pure functions
sed -e '/^\/\/go:build/d' "$SRC/fsnotify.go" > "$T/winx/fsnotify.go"
sed -e '/^\/\/go:build/d' "$SRC/fsnotify.go" > "$T/fenx/fsnotify.go"
mv "$T/winstub" "$T/winx/stub"
( cd "$T" && go run ./winextract "$SRC" "$T" )
rm -f "$T/kqexport.go.txt"
OUT="$VERIF_DIR/bin/vgen"
FLAGS="-tags verif"
if [ "${1:-}" = race ]; then OUT="$VERIF_DIR/bin/vgen.race"; FLAGS="-race -tags verif"; fi
( cd "$T" && go build $FLAGS -o "$OUT" ./cmd/vgen )
