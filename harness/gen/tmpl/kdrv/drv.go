// Package kdrv performs real filesystem operations and posts the vnode notes
// FreeBSD's vop_*_post hooks would post. Every operation and its notes form one
// step of the simulated kernel (unix.Do).
package kdrv

import (
	"os"
	"path/filepath"
	"syscall"

	unix "kqsim/simunix"
)

func lvn(p string) (unix.Vnode, os.FileMode, bool) {
	var st syscall.Stat_t
	if err := syscall.Lstat(p, &st); err != nil {
		return unix.Vnode{}, 0, false
	}
	fi, _ := os.Lstat(p)
	return unix.Vnode{Dev: uint64(st.Dev), Ino: st.Ino}, fi.Mode(), true
}
func svn(p string) (unix.Vnode, bool) {
	var st syscall.Stat_t
	if err := syscall.Stat(p, &st); err != nil {
		return unix.Vnode{}, false
	}
	return unix.Vnode{Dev: uint64(st.Dev), Ino: st.Ino}, true
}
func parent(p string) (unix.Vnode, bool) { return svn(filepath.Dir(p)) }

// OpenFile mirrors os.OpenFile and posts create / truncate notes.
func OpenFile(p string, flag int, perm os.FileMode) (f *os.File, err error) {
	unix.Do(func(post func(unix.Vnode, uint32)) {
		old, existed := svn(p)
		f, err = os.OpenFile(p, flag, perm)
		if err != nil {
			return
		}
		if !existed {
			rp := p
			if r, e := filepath.EvalSymlinks(p); e == nil {
				rp = r
			}
			if pv, ok := parent(rp); ok {
				post(pv, unix.NOTE_WRITE)
			}
		} else if flag&os.O_TRUNC != 0 {
			post(old, unix.NOTE_ATTRIB)
		}
	})
	return
}

func Write(f *os.File, data string) (err error) {
	unix.Do(func(post func(unix.Vnode, uint32)) {
		var st syscall.Stat_t
		syscall.Fstat(int(f.Fd()), &st)
		_, err = f.WriteString(data)
		if err == nil {
			post(unix.Vnode{Dev: uint64(st.Dev), Ino: st.Ino}, unix.NOTE_WRITE|unix.NOTE_EXTEND)
		}
	})
	return
}

func Mkdir(p string) (err error) {
	unix.Do(func(post func(unix.Vnode, uint32)) {
		err = os.Mkdir(p, 0o755)
		if err == nil {
			if pv, ok := parent(p); ok {
				post(pv, unix.NOTE_WRITE|unix.NOTE_LINK)
			}
		}
	})
	return
}

func MkdirAll(p string) error {
	if _, err := os.Stat(p); err == nil {
		return nil
	}
	if d := filepath.Dir(p); d != p {
		if err := MkdirAll(d); err != nil {
			return err
		}
	}
	return Mkdir(p)
}

func Symlink(target, link string) (err error) {
	unix.Do(func(post func(unix.Vnode, uint32)) {
		err = os.Symlink(target, link)
		if err == nil {
			if pv, ok := parent(link); ok {
				post(pv, unix.NOTE_WRITE)
			}
		}
	})
	return
}

func Mkfifo(p string) (err error) {
	unix.Do(func(post func(unix.Vnode, uint32)) {
		err = syscall.Mkfifo(p, 0o644)
		if err == nil {
			if pv, ok := parent(p); ok {
				post(pv, unix.NOTE_WRITE)
			}
		}
	})
	return
}

func Rename(src, dst string) (err error) {
	unix.Do(func(post func(unix.Vnode, uint32)) {
		fv, fm, _ := lvn(src)
		tv, _, texists := lvn(dst)
		fdv, _ := parent(src)
		tdv, _ := parent(dst)
		err = os.Rename(src, dst)
		if err != nil {
			return
		}
		hint := uint32(unix.NOTE_WRITE)
		if fdv != tdv && fm.IsDir() {
			hint |= unix.NOTE_LINK
		}
		post(fdv, hint)
		post(tdv, hint)
		post(fv, unix.NOTE_RENAME)
		if texists && tv != fv {
			post(tv, unix.NOTE_DELETE)
		}
	})
	return
}

func Remove(p string) (err error) {
	unix.Do(func(post func(unix.Vnode, uint32)) {
		v, m, _ := lvn(p)
		pv, _ := parent(p)
		err = os.Remove(p)
		if err != nil {
			return
		}
		if m.IsDir() {
			post(pv, unix.NOTE_WRITE|unix.NOTE_LINK)
		} else {
			post(pv, unix.NOTE_WRITE)
		}
		post(v, unix.NOTE_DELETE)
	})
	return
}

func RemoveAll(p string) error {
	_, m, ok := lvn(p)
	if !ok {
		return nil
	}
	if m.IsDir() {
		ents, err := os.ReadDir(p)
		if err != nil {
			return err
		}
		for _, e := range ents {
			if err := RemoveAll(filepath.Join(p, e.Name())); err != nil {
				return err
			}
		}
	}
	return Remove(p)
}

func Chmod(p string, mode os.FileMode) (err error) {
	unix.Do(func(post func(unix.Vnode, uint32)) {
		err = os.Chmod(p, mode)
		if err == nil {
			if v, ok := svn(p); ok {
				post(v, unix.NOTE_ATTRIB)
			}
		}
	})
	return
}
