// winextract copies the pure translation functions of the Windows and FEN
// backends out of the working tree so that they can be executed on Linux.
package main

import (
	"bytes"
	"fmt"
	"go/ast"
	"go/parser"
	"go/printer"
	"go/token"
	"os"
	"path/filepath"
	"strings"
)

func extract(src string, want map[string]bool, constPrefix string, out *bytes.Buffer) {
	fset := token.NewFileSet()
	f, err := parser.ParseFile(fset, src, nil, 0)
	if err != nil {
		fmt.Fprintln(os.Stderr, "winextract:", err)
		os.Exit(2)
	}
	for _, d := range f.Decls {
		switch d := d.(type) {
		case *ast.GenDecl:
			if d.Tok == token.CONST && constPrefix != "" {
				keep := false
				for _, s := range d.Specs {
					for _, n := range s.(*ast.ValueSpec).Names {
						if strings.HasPrefix(n.Name, constPrefix) {
							keep = true
						}
					}
				}
				if keep {
					d.Doc = nil
					printer.Fprint(out, fset, d)
					out.WriteString("\n\n")
				}
			}
		case *ast.FuncDecl:
			if d.Recv != nil && want[d.Name.Name] {
				d.Doc = nil
				printer.Fprint(out, fset, d)
				out.WriteString("\n\n")
				delete(want, d.Name.Name)
			}
		}
	}
	if len(want) > 0 {
		fmt.Fprintln(os.Stderr, "winextract: functions not found in", src, ":", want)
		os.Exit(2)
	}
}

const exports = `
const (
	VerifUnportableOpen       = xUnportableOpen
	VerifUnportableRead       = xUnportableRead
	VerifUnportableCloseWrite = xUnportableCloseWrite
	VerifUnportableCloseRead  = xUnportableCloseRead
)
`

func main() {
	src, dst := os.Args[1], os.Args[2]
	var w bytes.Buffer
	w.WriteString("package fsnotify\n\nimport \"kqsim/winx/stub/windows\"\n\ntype readDirChangesW struct{}\n\nvar defaultBufferSize = 50\n\nfunc newBackend(ev chan Event, errs chan error) (backend, error) { return nil, nil }\n\nvar _ = windows.FILE_ACTION_ADDED\n\n")
	extract(filepath.Join(src, "backend_windows.go"), map[string]bool{"newEvent": true, "toWindowsFlags": true, "toFSnotifyFlags": true, "xSupports": true}, "sysFS", &w)
	w.WriteString("func VerifWinNewEvent(mask uint32) Event { return (&readDirChangesW{}).newEvent(\"n\", mask) }\nfunc VerifWinToWindows(mask uint64) uint32 { return (&readDirChangesW{}).toWindowsFlags(mask) }\nfunc VerifWinToFsnotify(a uint32) uint64 { return (&readDirChangesW{}).toFSnotifyFlags(a) }\nfunc VerifWinSupports(op Op) bool { return (&readDirChangesW{}).xSupports(op) }\n")
	w.WriteString("const (\n\tVerifSysCreate = sysFSCREATE\n\tVerifSysDelete = sysFSDELETE\n\tVerifSysDeleteSelf = sysFSDELETESELF\n\tVerifSysModify = sysFSMODIFY\n\tVerifSysMovedFrom = sysFSMOVEDFROM\n\tVerifSysMovedTo = sysFSMOVEDTO\n\tVerifSysMoveSelf = sysFSMOVESELF\n\tVerifSysAll = sysFSALLEVENTS\n\tVerifSysIgnored = sysFSIGNORED\n)\n")
	w.WriteString(exports)
	if err := os.WriteFile(filepath.Join(dst, "winx", "zz_winfuncs.go"), w.Bytes(), 0o644); err != nil {
		panic(err)
	}
	var f bytes.Buffer
	f.WriteString("package fsnotify\n\ntype fen struct{}\n\nvar defaultBufferSize = 0\n\nfunc newBackend(ev chan Event, errs chan error) (backend, error) { return nil, nil }\n\n")
	extract(filepath.Join(src, "backend_fen.go"), map[string]bool{"xSupports": true}, "", &f)
	f.WriteString("func VerifFenSupports(op Op) bool { return (&fen{}).xSupports(op) }\n")
	f.WriteString(exports)
	if err := os.WriteFile(filepath.Join(dst, "fenx", "zz_fen.go"), f.Bytes(), 0o644); err != nil {
		panic(err)
	}
}
