module kqsim

go 1.23

require (
	github.com/fsnotify/fsnotify v0.0.0
	golang.org/x/sys v0.13.0
	harness v0.0.0
)

replace github.com/fsnotify/fsnotify => /repo

replace harness => /verif/harness
