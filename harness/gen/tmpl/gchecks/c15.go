package gchecks

import (
	"fmt"
	"math/rand"
	"os"
	"path/filepath"
	"strconv"
	"strings"
	"time"

	real "github.com/fsnotify/fsnotify"
	"golang.org/x/sys/unix"

	"harness/core"
	fenx "kqsim/fenx"
	kq "kqsim/kqfsnotify"
	sim "kqsim/simunix"
	winx "kqsim/winx"
	"kqsim/winx/stub/windows"
)

func init() {
	core.Register(&core.Check{
		ID:     "C15",
		Binary: "vgen",
		Level:  "exploration",
		Rule: "E-enum over the whole finite domains, real functions executed: (inotify, translate) newEvent on all 2^12 combinations of the twelve inspected IN_* bits x 2^4 housekeeping bits (IN_ISDIR, IN_IGNORED, IN_UNMOUNT, IN_Q_OVERFLOW) x cookie {0,n}: result == reference table, f(a|b)==f(a)|f(b), housekeeping bits never change the operations; " +
			"(inotify, request) all 2^9 operation subsets x {follow, no-follow} x {file, directory} through AddWith on real paths, the kernel's stored mask read back from /proc/self/fdinfo == reference (every requested operation observable, no unrelated flag; the empty set fails and leaves the set untouched); plus re-Add histories (2-5 AddWith calls for one path with PRNG operation sets - directory, file, symlink followed, symlink not followed, a file replaced under its name between two calls, one directory under several names, a file under its own name and through a followed symlink with the follow mode varying: after every call the single kernel mark is on the watched file's inode and carries exactly the union of what was requested for it), an alias-widening case (same directory added again through a symlink with more operations: the new one must be observable) and a behavioural pass: for each single operation a scripted set of real changes must produce only that operation and must produce it; " +
			"(kqueue) the copied backend's newEvent on all 2^11 NOTE_* combinations (Write dropped with Remove, otherwise union-homomorphic), noteAllEvents == DELETE|WRITE|ATTRIB|RENAME, the fflags actually registered per knote class in the simulator, link spelling; " +
			"(Windows) extracted newEvent on all 2^16 low masks of the sysFS* space (Chmod never), toWindowsFlags on all 2^12 masks, toFSnotifyFlags on every action 0..1023 and PRNG values; xSupports of kqueue/Windows/FEN/inotify over all 2^9 operation sets. distinct_nontrivial = distinct native masks / op sets evaluated with a non-empty result",
		Assumptions: []string{"reference tables (harness/gen/tmpl/gchecks/c15.go) are written from the documentation of each native API", "Windows and FEN: only the extracted pure functions run (real Win32 constant values); their event loops do not exist on Linux", "kqueue registration is observed on the simulated kqueue"},
		Batches:     func(t string) int { return 1 },
		MustObserve: []string{"inotify_translate_masks", "inotify_request_adds", "inotify_readd_adds", "inotify_behaviour_events", "kqueue_translate_masks", "windows_translate_masks", "xsupports_evaluations", "kqueue_knotes_seen"},
		Exhaustive:  true,
		Run:         runC15,
	})
}

var inBits = []struct {
	bit uint32
	op  real.Op
}{
	{unix.IN_CREATE, real.Create}, {unix.IN_MOVED_TO, real.Create},
	{unix.IN_DELETE, real.Remove}, {unix.IN_DELETE_SELF, real.Remove},
	{unix.IN_MODIFY, real.Write},
	{unix.IN_MOVED_FROM, real.Rename}, {unix.IN_MOVE_SELF, real.Rename},
	{unix.IN_ATTRIB, real.Chmod},
	{unix.IN_OPEN, real.VerifUnportableOpen}, {unix.IN_ACCESS, real.VerifUnportableRead},
	{unix.IN_CLOSE_WRITE, real.VerifUnportableCloseWrite}, {unix.IN_CLOSE_NOWRITE, real.VerifUnportableCloseRead},
}

// reqRef: which native flags a requested operation needs (reference, from inotify(7)).
var reqRef = []struct {
	op   real.Op
	mask uint32
}{
	{real.Create, unix.IN_CREATE},
	{real.Write, unix.IN_MODIFY},
	{real.Remove, unix.IN_DELETE | unix.IN_DELETE_SELF},
	{real.Rename, unix.IN_MOVED_TO | unix.IN_MOVED_FROM | unix.IN_MOVE_SELF},
	{real.Chmod, unix.IN_ATTRIB},
	{real.VerifUnportableOpen, unix.IN_OPEN},
	{real.VerifUnportableRead, unix.IN_ACCESS},
	{real.VerifUnportableCloseWrite, unix.IN_CLOSE_WRITE},
	{real.VerifUnportableCloseRead, unix.IN_CLOSE_NOWRITE},
}

func fdinfoMask(fd int, wd uint32) (uint32, bool) {
	b, err := os.ReadFile(fmt.Sprintf("/proc/self/fdinfo/%d", fd))
	if err != nil {
		return 0, false
	}
	for _, l := range strings.Split(string(b), "\n") {
		if !strings.HasPrefix(l, "inotify wd:") {
			continue
		}
		var w, m uint64
		for _, f := range strings.Fields(l)[1:] {
			kv := strings.SplitN(f, ":", 2)
			v, _ := strconv.ParseUint(kv[1], 16, 64)
			switch kv[0] {
			case "wd":
				w = v
			case "mask":
				m = v
			}
		}
		if uint32(w) == wd {
			return uint32(m), true
		}
	}
	return 0, false
}

func firstWd(fd int) uint32 {
	b, _ := os.ReadFile(fmt.Sprintf("/proc/self/fdinfo/%d", fd))
	for _, l := range strings.Split(string(b), "\n") {
		if strings.HasPrefix(l, "inotify wd:") {
			v, _ := strconv.ParseUint(strings.TrimPrefix(strings.Fields(l)[1], "wd:"), 16, 64)
			return uint32(v)
		}
	}
	return 0
}

func runC15(c *core.Ctx) {
	rng, ok := c.CaseRng(0, "enumeration")
	if !ok {
		return
	}
	c15InotifyTranslate(c)
	c15InotifyRequest(c)
	c15InotifyReAdd(c, rng)
	c15Kqueue(c)
	c15Windows(c)
	c15Supports(c)
}

func c15InotifyTranslate(c *core.Ctx) {
	w, err := real.NewWatcher()
	if err != nil {
		c.Broken(err.Error())
		return
	}
	defer w.Close()
	ref := func(mask uint32) real.Op {
		var o real.Op
		for _, b := range inBits {
			if mask&b.bit != 0 {
				o |= b.op
			}
		}
		return o
	}
	house := []uint32{unix.IN_ISDIR, unix.IN_IGNORED, unix.IN_UNMOUNT, unix.IN_Q_OVERFLOW}
	nv := 0
	viol := func(sig, text string, wit interface{}) {
		nv++
		if nv <= 6 {
			c.Violate(sig, text, wit)
		}
	}
	singles := map[uint32]real.Op{}
	for _, b := range inBits {
		singles[b.bit] = real.VerifNewEvent(w, "n", b.bit, 0).Op
	}
	for m := 0; m < 1<<12; m++ {
		var mask uint32
		for i, b := range inBits {
			if m&(1<<i) != 0 {
				mask |= b.bit
			}
		}
		want := ref(mask)
		var union real.Op
		for _, b := range inBits {
			if mask&b.bit != 0 {
				union |= singles[b.bit]
			}
		}
		for h := 0; h < 16; h++ {
			hm := mask
			for i, hb := range house {
				if h&(1<<i) != 0 {
					hm |= hb
				}
			}
			for _, cookie := range []uint32{0, 0x1234} {
				e := real.VerifNewEvent(w, "name", hm, cookie)
				c.Res.Counters["inotify_translate_masks"]++
				if e.Op != want {
					viol("inotify-translate", fmt.Sprintf("inotify newEvent(mask=%#x [%s], cookie=%d) = %s, reference %s", hm, maskStr(hm), cookie, e.Op, want), hm)
				}
				if e.Op != union {
					viol("inotify-not-union", fmt.Sprintf("inotify newEvent(mask=%#x) = %s but the union of its single-bit translations is %s", hm, e.Op, union), hm)
				}
				if e.Name != "name" {
					viol("inotify-translate", fmt.Sprintf("newEvent changed the name to %q", e.Name), hm)
				}
			}
		}
		if want != 0 {
			c.Distinct("in", mask)
		}
	}
	c.Eval(1 << 17)
	c.Sample(map[string]interface{}{"backend": "inotify", "mask": "IN_CREATE|IN_MOVED_FROM|IN_ISDIR", "ops": real.VerifNewEvent(w, "n", unix.IN_CREATE|unix.IN_MOVED_FROM|unix.IN_ISDIR, 0).Op.String()})
}

func maskStr(m uint32) string {
	names := map[uint32]string{unix.IN_ACCESS: "ACCESS", unix.IN_MODIFY: "MODIFY", unix.IN_ATTRIB: "ATTRIB", unix.IN_CLOSE_WRITE: "CLOSE_WRITE", unix.IN_CLOSE_NOWRITE: "CLOSE_NOWRITE",
		unix.IN_OPEN: "OPEN", unix.IN_MOVED_FROM: "MOVED_FROM", unix.IN_MOVED_TO: "MOVED_TO", unix.IN_CREATE: "CREATE", unix.IN_DELETE: "DELETE", unix.IN_DELETE_SELF: "DELETE_SELF",
		unix.IN_MOVE_SELF: "MOVE_SELF", unix.IN_UNMOUNT: "UNMOUNT", unix.IN_Q_OVERFLOW: "Q_OVERFLOW", unix.IN_IGNORED: "IGNORED", unix.IN_ISDIR: "ISDIR", unix.IN_DONT_FOLLOW: "DONT_FOLLOW", unix.IN_MASK_ADD: "MASK_ADD", unix.IN_EXCL_UNLINK: "EXCL_UNLINK", unix.IN_ONESHOT: "ONESHOT", unix.IN_ONLYDIR: "ONLYDIR"}
	var p []string
	for b := uint32(1); b != 0; b <<= 1 {
		if m&b != 0 {
			if n, ok := names[b]; ok {
				p = append(p, n)
			} else {
				p = append(p, fmt.Sprintf("%#x", b))
			}
		}
	}
	return strings.Join(p, "|")
}

func c15InotifyRequest(c *core.Ctx) {
	w, err := real.NewWatcher()
	if err != nil {
		c.Broken(err.Error())
		return
	}
	defer w.Close()
	go func() {
		for range w.Errors {
		}
	}()
	evs := make(chan real.Event, 4096)
	go func() {
		for e := range w.Events {
			select {
			case evs <- e:
			default:
			}
		}
	}()
	dir := filepath.Join(c.Tmp, "c15")
	os.MkdirAll(filepath.Join(dir, "d"), 0o755)
	os.WriteFile(filepath.Join(dir, "f"), nil, 0o644)
	os.Symlink(filepath.Join(dir, "f"), filepath.Join(dir, "lf"))
	fd := real.VerifInotifyFd(w)
	nv := 0
	for _, target := range []string{"d", "f", "lf"} {
		p := filepath.Join(dir, target)
		for m := 0; m < 512; m++ {
			var ops real.Op
			var want uint32
			for i, r := range reqRef {
				if m&(1<<i) != 0 {
					ops |= r.op
					want |= r.mask
				}
			}
			for _, nofollow := range []bool{false, true} {
				opts := []real.VerifAddOpt{real.VerifWithOps(ops)}
				if nofollow {
					opts = append(opts, real.VerifWithNoFollow())
				}
				before := len(w.WatchList())
				err := w.AddWith(p, opts...)
				c.Res.Counters["inotify_request_adds"]++
				if ops == 0 {
					// Nothing requested: either the Add fails and leaves the set untouched, or it
					// succeeds with a kernel mask without any event bit (the kernel accepts a mask of
					// IN_DONT_FOLLOW alone). The statement does not demand a failure.
					if err == nil {
						if got, ok := fdinfoMask(fd, firstWd(fd)); !ok || got&unix.IN_ALL_EVENTS != 0 {
							c.Violate("inotify-request-empty", fmt.Sprintf("AddWith(%s, ops=none, nofollow=%v) subscribed to %s", target, nofollow, maskStr(got&unix.IN_ALL_EVENTS)), nil)
						}
						w.Remove(p)
					} else if len(w.WatchList()) != before {
						c.Violate("inotify-request-empty", "a failed AddWith changed the watch set", nil)
					}
					continue
				}
				if err != nil {
					nv++
					if nv < 6 {
						c.Violate("inotify-request", fmt.Sprintf("AddWith(%s, %s, nofollow=%v) failed: %v", target, ops, nofollow, err), nil)
					}
					continue
				}
				marks := 0
				var got uint32
				b, _ := os.ReadFile(fmt.Sprintf("/proc/self/fdinfo/%d", fd))
				for _, l := range strings.Split(string(b), "\n") {
					if strings.HasPrefix(l, "inotify wd:") {
						marks++
						for _, f := range strings.Fields(l)[1:] {
							if strings.HasPrefix(f, "mask:") {
								v, _ := strconv.ParseUint(f[5:], 16, 64)
								got = uint32(v)
							}
						}
					}
				}
				if marks != 1 {
					c.Broken(fmt.Sprintf("expected exactly one kernel mark, found %d", marks))
					return
				}
				// fdinfo shows the event bits plus IN_EXCL_UNLINK / IN_ONESHOT when they were asked for (these change
				// what is reported, so they count as "unrelated flags"); IN_ONLYDIR/DONT_FOLLOW/MASK_ADD are not stored
				if got != want {
					nv++
					if nv < 6 {
						missing, extra := want&^got, got&^want
						c.Violate("inotify-request", fmt.Sprintf("AddWith(%s, ops=%s, nofollow=%v): kernel mask %s; needed to observe the request: %s; missing [%s] unrelated [%s]", target, ops, nofollow, maskStr(got), maskStr(want), maskStr(missing), maskStr(extra)), map[string]interface{}{"ops": uint32(ops)})
					}
				}
				if err := w.Remove(p); err != nil {
					c.Broken("Remove: " + err.Error())
					return
				}
				c.Distinct("req", target, m, nofollow)
			}
		}
	}
	c.Eval(512 * 2 * 3)
	// alias widening: the same directory added a second time through a symlink with MORE operations:
	// the newly requested operation must be observable (the kernel mask is replaced by the second request)
	{
		ld := filepath.Join(dir, "ld")
		os.Symlink(filepath.Join(dir, "d"), ld)
		dd := filepath.Join(dir, "d")
		if err := w.AddWith(dd, real.VerifWithOps(real.Create)); err != nil {
			c.Broken(err.Error())
			return
		}
		if err := w.AddWith(ld, real.VerifWithOps(real.Create|real.Write)); err != nil {
			c.Violate("inotify-request", fmt.Sprintf("alias AddWith failed: %v", err), nil)
		}
		if got, ok := fdinfoMask(fd, firstWd(fd)); !ok || got&unix.IN_ALL_EVENTS != unix.IN_CREATE|unix.IN_MODIFY {
			c.Violate("inotify-request", fmt.Sprintf("AddWith(d, Create) then AddWith(link->d, Create|Write): kernel mask %s, needed %s", maskStr(got&unix.IN_ALL_EVENTS), maskStr(unix.IN_CREATE|unix.IN_MODIFY)), nil)
		}
		for len(evs) > 0 {
			<-evs
		}
		x := filepath.Join(dd, "aw")
		os.WriteFile(x, []byte("12"), 0o644)
		var seen real.Op
		for i := 0; i < 4000 && seen&real.Write == 0; i++ {
			select {
			case e := <-evs:
				if strings.HasSuffix(e.Name, "/aw") {
					seen |= e.Op
					c.Res.Counters["inotify_behaviour_events"]++
				}
			default:
				unix.Nanosleep(&unix.Timespec{Nsec: 50000}, nil)
			}
		}
		if seen&real.Write == 0 {
			c.Violate("inotify-request-unobservable", fmt.Sprintf("AddWith(d, Create); AddWith(symlink to d, Create|Write); a write to an entry was reported as %s: the requested Write is not observable", seen), nil)
		}
		os.Remove(x)
		w.Remove(dd)
		c.Distinct("alias-widening")
	}
	// behavioural pass: single operations on a directory watch
	drain := func() []real.Event {
		var l []real.Event
		for {
			select {
			case e := <-evs:
				l = append(l, e)
			default:
				return l
			}
		}
	}
	d := filepath.Join(dir, "d")
	for _, r := range reqRef[:5] {
		if err := w.AddWith(d, real.VerifWithOps(r.op)); err != nil {
			c.Broken(err.Error())
			return
		}
		sent := filepath.Join(c.Tmp, "c15sent")
		os.MkdirAll(sent, 0o755)
		w.AddWith(sent, real.VerifWithOps(real.Create))
		drain()
		x := filepath.Join(d, "x")
		os.WriteFile(x, []byte("1"), 0o644) // create + write
		os.Chmod(x, 0o600)                  // chmod
		os.Rename(x, x+"2")                 // rename
		os.Remove(x + "2")                  // remove
		// barrier
		mark := filepath.Join(sent, "m"+r.op.String())
		os.WriteFile(mark, nil, 0o644)
		var got []real.Event
		deadline := 0
		for done := false; !done && deadline < 200000; deadline++ {
			select {
			case e := <-evs:
				if e.Name == mark {
					done = true
				} else {
					got = append(got, e)
				}
			default:
				unix.Nanosleep(&unix.Timespec{Nsec: 50000}, nil)
			}
		}
		var seen real.Op
		for _, e := range got {
			if strings.HasPrefix(e.Name, d) {
				seen |= e.Op
				c.Res.Counters["inotify_behaviour_events"]++
			}
		}
		// with only r.op requested: that operation must be seen; Create is also what a requested
		// Rename legitimately reports for the new name (IN_MOVED_TO)
		allowed := r.op
		if r.op == real.Rename {
			allowed |= real.Create
		}
		if seen&r.op == 0 {
			c.Violate("inotify-request-unobservable", fmt.Sprintf("requested only %s on a directory; create/write/chmod/rename/remove of an entry produced %s: the requested operation was not observable", r.op, seen), nil)
		}
		if seen&^allowed != 0 {
			c.Violate("inotify-request-unrelated", fmt.Sprintf("requested only %s on a directory; received %s", r.op, seen), nil)
		}
		w.Remove(d)
		w.Remove(sent)
	}
}

// allMasks returns the stored mask (and, in inos, the inode number) of every kernel mark of the inotify descriptor.
func allMasks(fd int) []uint32 {
	m, _ := allMarks(fd)
	return m
}

func allMarks(fd int) (masks []uint32, inos []uint64) {
	b, _ := os.ReadFile(fmt.Sprintf("/proc/self/fdinfo/%d", fd))
	for _, ln := range strings.Split(string(b), "\n") {
		if !strings.HasPrefix(ln, "inotify wd:") {
			continue
		}
		for _, f := range strings.Fields(ln)[1:] {
			if strings.HasPrefix(f, "mask:") {
				v, _ := strconv.ParseUint(f[5:], 16, 64)
				masks = append(masks, uint32(v)) // event bits, plus IN_EXCL_UNLINK/IN_ONESHOT if requested
			}
			if strings.HasPrefix(f, "ino:") {
				v, _ := strconv.ParseUint(f[4:], 16, 64)
				inos = append(inos, v)
			}
		}
	}
	return
}

// c15InotifyReAdd: histories of several AddWith calls for ONE path with different operation sets. Every
// operation requested for the path by an Add that succeeded (and not withdrawn by Remove) must stay observable, and
// nothing else may be subscribed: after each call the single kernel mark carries exactly the union of the
// reference masks of all requests so far. Variants: the same file throughout; a watched symlink (follow and
// no-follow, kept constant within a history); and "log rotation": the watched file is renamed away (it stays
// linked, and the operations requested exclude Rename/Remove so the table entry survives) and a new file is
// created under the watched name before the next Add - the watch must move to the new file with the union.
func c15InotifyReAdd(c *core.Ctx, rng *rand.Rand) {
	w, err := real.NewWatcher()
	if err != nil {
		c.Broken(err.Error())
		return
	}
	deadlocked := false
	defer func() {
		if !deadlocked { // a Watcher whose lock is held for ever cannot be closed either
			w.Close()
		}
	}()
	go func() {
		for range w.Errors {
		}
	}()
	go func() {
		for range w.Events {
		}
	}()
	fd := real.VerifInotifyFd(w)
	dir := filepath.Join(c.Tmp, "c15re")
	os.MkdirAll(filepath.Join(dir, "d"), 0o755)
	os.WriteFile(filepath.Join(dir, "f"), nil, 0o644)
	os.Symlink(filepath.Join(dir, "f"), filepath.Join(dir, "lf"))
	os.Symlink(filepath.Join(dir, "d"), filepath.Join(dir, "ld"))
	n := 640
	if c.Tier == "thorough" {
		n = 6000
	}
	nv := 0
	for it := 0; it < n; it++ {
		variant := it % 8 // 0 dir, 1 file, 2 link follow, 3 link no-follow, 4 rotation, 5 the same file under several names, 6 a regular file with the follow mode changing from call to call, 7 a file under its name (any follow mode) and through a followed symlink, alternating
		target := []string{"d", "f", "lf", "lf", "f", "d", "f", "f"}[variant]
		p := filepath.Join(dir, target)
		k := 2 + rng.Intn(4)
		rotateAt := -1
		if variant == 4 {
			rotateAt = 1 + rng.Intn(k-1)
		}
		var union uint32
		var hist []string
		bad := false
		for j := 0; j < k && !bad; j++ {
			var ops real.Op
			var want uint32
			for ops == 0 {
				for _, r := range reqRef {
					if variant == 4 && (r.op == real.Rename || r.op == real.Remove) {
						continue
					}
					if rng.Intn(3) == 0 {
						ops |= r.op
						want |= r.mask
					}
				}
			}
			if j == rotateAt {
				os.Remove(p + ".1")
				if err := os.Rename(p, p+".1"); err != nil {
					c.Broken(err.Error())
					return
				}
				os.WriteFile(p, nil, 0o644)
				hist = append(hist, "rotate")
			}
			opts := []real.VerifAddOpt{real.VerifWithOps(ops)}
			nofollow := variant == 3 || (variant == 6 && rng.Intn(2) == 0)
			if nofollow {
				opts = append(opts, real.VerifWithNoFollow())
			}
			pj := p
			if variant == 7 {
				// the link (followed) and the file itself (sometimes no-follow, which means nothing for a
				// regular file): always the same inode; the link must never come to be watched itself
				if rng.Intn(2) == 0 {
					pj = filepath.Join(dir, "lf")
					nofollow = false
					opts = []real.VerifAddOpt{real.VerifWithOps(ops)}
					hist = append(hist, "Add(lf, "+ops.String()+")")
				} else {
					nofollow = rng.Intn(2) == 0
					opts = []real.VerifAddOpt{real.VerifWithOps(ops)}
					if nofollow {
						opts = append(opts, real.VerifWithNoFollow())
					}
					hist = append(hist, "Add(f, "+ops.String()+map[bool]string{true: ", no-follow", false: ""}[nofollow]+")")
				}
			} else if variant == 5 { // the directory itself, a symlink to it, a spelling that cleans to it
				sp := []string{"d", "ld", "d/../ld"}[rng.Intn(3)]
				pj = filepath.Join(dir, sp)
				hist = append(hist, "Add("+sp+", "+ops.String()+")")
			} else {
				hist = append(hist, "Add("+ops.String()+map[bool]string{true: ", no-follow", false: ""}[nofollow && variant == 6]+")")
			}
			var aerr error
			if ok, dump := core.WithWatchdog(20*time.Second, func() { aerr = w.AddWith(pj, opts...) }); !ok {
				// the dump decides: the call is parked on a lock below the library's own frames
				if strings.Contains(dump, "sync.(*Mutex).Lock") && strings.Contains(dump, "fsnotify.(*inotify).register") {
					var g string
					for _, b := range strings.Split(dump, "\n\n") {
						if strings.Contains(b, "fsnotify.(*inotify).register") {
							g = b
						}
					}
					if len(g) > 1500 {
						g = g[:1500]
					}
					deadlocked = true
					c.Violate("inotify-readd-deadlock", fmt.Sprintf("variant %d (%s) history %v: the last AddWith never returned: it waits for a lock below register(), which runs with the Watcher's lock held", variant, target, hist), g)
				} else {
					c.Inconclusive(fmt.Sprintf("re-Add history %v: AddWith not returned at the watchdog", hist))
				}
				return
			}
			if err := aerr; err != nil {
				c.Violate("inotify-readd", fmt.Sprintf("%s: %v: %v", target, hist, err), nil)
				bad = true
				break
			}
			c.Res.Counters["inotify_readd_adds"]++
			union |= want
			ms, inos := allMarks(fd)
			var wantIno uint64
			{
				var st unix.Stat_t
				var e error
				if variant == 3 {
					e = unix.Lstat(p, &st) // the link itself
				} else {
					e = unix.Stat(p, &st)
				}
				if e == nil {
					wantIno = st.Ino
				}
			}
			if len(ms) == 1 && ms[0] == union && wantIno != 0 && inos[0] != wantIno {
				c.Violate("inotify-readd-wrong-file", fmt.Sprintf("variant %d (%s) history %v: the single kernel mark is on inode %d, the watched file is inode %d", variant, target, hist, inos[0], wantIno), map[string]interface{}{"history": hist})
				bad = true
			}
			if len(ms) != 1 || ms[0] != union {
				nv++
				if nv < 6 {
					var got []string
					for _, m := range ms {
						got = append(got, maskStr(m))
					}
					sig := "inotify-readd"
					if variant == 5 {
						sig = "inotify-readd-alias"
					}
					c.Violate(sig, fmt.Sprintf("variant %d (%s) history %v: kernel marks %v; the operations requested for this file need exactly [%s]", variant, target, hist, got, maskStr(union)), map[string]interface{}{"history": hist})
				}
				bad = true
			}
		}
		for _, lp := range w.WatchList() {
			if err := w.Remove(lp); err != nil && !bad {
				c.Violate("inotify-readd", fmt.Sprintf("%v: Remove: %v", hist, err), nil)
			}
		}
		if ms := allMasks(fd); len(ms) != 0 {
			if !bad {
				c.Violate("inotify-readd", fmt.Sprintf("%v then Remove: %d kernel marks left", hist, len(ms)), nil)
			}
			// start the next history from a clean watcher
			w.Close()
			w, err = real.NewWatcher()
			if err != nil {
				c.Broken(err.Error())
				return
			}
			go func(w *real.Watcher) {
				for range w.Errors {
				}
			}(w)
			go func(w *real.Watcher) {
				for range w.Events {
				}
			}(w)
			fd = real.VerifInotifyFd(w)
		}
		c.Distinct("readd", variant, k, rotateAt, fmt.Sprint(hist))
		c.Eval(1)
	}
}

func c15Kqueue(c *core.Ctx) {
	type nb struct {
		bit uint32
		op  kq.Op
	}
	bits := []nb{{sim.NOTE_DELETE, kq.Remove}, {sim.NOTE_WRITE, kq.Write}, {sim.NOTE_EXTEND, 0}, {sim.NOTE_ATTRIB, kq.Chmod}, {sim.NOTE_LINK, 0}, {sim.NOTE_RENAME, kq.Rename}, {sim.NOTE_REVOKE, 0},
		{0x80, 0}, {0x100, 0}, {0x200, 0}, {0x400, 0}} // NOTE_OPEN, NOTE_CLOSE, NOTE_CLOSE_WRITE, NOTE_READ on FreeBSD
	norm := func(o kq.Op) kq.Op {
		if o&kq.Remove != 0 {
			o &^= kq.Write
		}
		return o
	}
	for m := 0; m < 1<<len(bits); m++ {
		var mask uint32
		var want, union kq.Op
		for i, b := range bits {
			if m&(1<<i) != 0 {
				mask |= b.bit
				want |= b.op
				union |= kq.VerifKqNewEvent(b.bit).Op
			}
		}
		e := kq.VerifKqNewEvent(mask)
		c.Res.Counters["kqueue_translate_masks"]++
		if e.Op != norm(want) {
			c.Violate("kqueue-translate", fmt.Sprintf("kqueue newEvent(fflags=%#x) = %s, reference %s (Write dropped when Remove is present)", mask, e.Op, norm(want)), mask)
			break
		}
		if e.Op != norm(union) {
			c.Violate("kqueue-not-union", fmt.Sprintf("kqueue newEvent(fflags=%#x) = %s, union of single-bit translations (minus Write with Remove) = %s", mask, e.Op, norm(union)), mask)
			break
		}
		if want != 0 {
			c.Distinct("kq", mask)
		}
	}
	c.Eval(1 << len(bits))
	if kq.VerifNoteAll != sim.NOTE_DELETE|sim.NOTE_WRITE|sim.NOTE_ATTRIB|sim.NOTE_RENAME {
		c.Violate("kqueue-request", fmt.Sprintf("noteAllEvents = %#x, needed for Remove/Write/Chmod/Rename: exactly NOTE_DELETE|NOTE_WRITE|NOTE_ATTRIB|NOTE_RENAME = %#x", uint32(kq.VerifNoteAll), uint32(sim.NOTE_DELETE|sim.NOTE_WRITE|sim.NOTE_ATTRIB|sim.NOTE_RENAME)), nil)
	}
	if e := kq.VerifKqNewEventLink("/target", "/link", sim.NOTE_WRITE); e.Name != "/link" {
		c.Violate("kqueue-translate", fmt.Sprintf("event for a watch added through a link is named %q, want the link spelling", e.Name), nil)
	}
	// what is actually registered per knote on the simulated kqueue
	dir := filepath.Join(c.Tmp, "c15kq")
	os.MkdirAll(filepath.Join(dir, "d", "sub"), 0o755)
	os.WriteFile(filepath.Join(dir, "d", "file"), nil, 0o644)
	os.WriteFile(filepath.Join(dir, "single"), nil, 0o644)
	w, err := kq.NewWatcher()
	if err != nil {
		c.Broken(err.Error())
		return
	}
	col := newCollector(w)
	w.Add(filepath.Join(dir, "d"))
	w.Add(filepath.Join(dir, "single"))
	col.quiesce()
	st := kq.VerifKq(w)
	all := uint32(sim.NOTE_DELETE | sim.NOTE_WRITE | sim.NOTE_ATTRIB | sim.NOTE_RENAME)
	for fd, fl := range sim.Knotes(kq.VerifKqFd(w)) {
		name := st.Wd[fd]
		want := all
		cls := "user path / file entry"
		if strings.HasSuffix(name, "/sub") {
			want = sim.NOTE_DELETE | sim.NOTE_RENAME // a sub-directory of a watched directory only needs to report its own removal/rename
			cls = "sub-directory entry"
		}
		c.Res.Counters["kqueue_knotes_seen"]++
		c.Hist("kqueue_registered_fflags", fmt.Sprintf("%s:%#x", cls, fl), 1)
		if fl != want {
			c.Violate("kqueue-request", fmt.Sprintf("knote for %s (%s) registered fflags %#x, reference %#x", strings.TrimPrefix(name, dir), cls, fl, want), nil)
		}
	}
	w.Close()
	<-col.done
	for i := 0; i < 100000 && len(sim.Ledger()) > 0; i++ {
		unix.Nanosleep(&unix.Timespec{Nsec: 50000}, nil)
	}
}

func c15Windows(c *core.Ctx) {
	ref := func(mask uint32) winx.Op {
		var o winx.Op
		if mask&(winx.VerifSysCreate|winx.VerifSysMovedTo) != 0 {
			o |= winx.Create
		}
		if mask&(winx.VerifSysDelete|winx.VerifSysDeleteSelf) != 0 {
			o |= winx.Remove
		}
		if mask&winx.VerifSysModify != 0 {
			o |= winx.Write
		}
		if mask&(winx.VerifSysMovedFrom|winx.VerifSysMoveSelf) != 0 {
			o |= winx.Rename
		}
		return o
	}
	single := map[uint32]winx.Op{}
	for b := uint32(1); b < 1<<16; b <<= 1 {
		single[b] = winx.VerifWinNewEvent(b).Op
	}
	nv := 0
	for m := uint32(0); m < 1<<16; m++ {
		e := winx.VerifWinNewEvent(m)
		c.Res.Counters["windows_translate_masks"]++
		var union winx.Op
		for b := uint32(1); b < 1<<16; b <<= 1 {
			if m&b != 0 {
				union |= single[b]
			}
		}
		if e.Op != ref(m) || e.Op != union || e.Op&winx.Chmod != 0 {
			nv++
			if nv < 6 {
				c.Violate("windows-translate", fmt.Sprintf("Windows newEvent(mask=%#x) = %s; reference %s; union of single bits %s (Chmod is never produced on Windows)", m, e.Op, ref(m), union), m)
			}
		}
		if ref(m) != 0 && m < 1<<12 {
			c.Distinct("win", m)
		}
	}
	c.Eval(1 << 16)
	// request side: which FILE_NOTIFY_CHANGE_* are asked for a mask
	for m := uint64(0); m < 1<<12; m++ {
		var want uint32
		if m&winx.VerifSysModify != 0 {
			want |= windows.FILE_NOTIFY_CHANGE_LAST_WRITE
		}
		if m&(winx.VerifSysMovedFrom|winx.VerifSysMovedTo|winx.VerifSysCreate|winx.VerifSysDelete) != 0 {
			want |= windows.FILE_NOTIFY_CHANGE_FILE_NAME | windows.FILE_NOTIFY_CHANGE_DIR_NAME
		}
		if got := winx.VerifWinToWindows(m); got != want {
			nv++
			if nv < 6 {
				c.Violate("windows-request", fmt.Sprintf("toWindowsFlags(%#x) = %#x, needed %#x", m, got, want), m)
			}
		}
	}
	if got := winx.VerifWinToWindows(winx.VerifSysAll); got != windows.FILE_NOTIFY_CHANGE_LAST_WRITE|windows.FILE_NOTIFY_CHANGE_FILE_NAME|windows.FILE_NOTIFY_CHANGE_DIR_NAME {
		c.Violate("windows-request", fmt.Sprintf("the flags every Windows watch subscribes to (sysFSALLEVENTS) map to %#x", got), nil)
	}
	act := map[uint32]uint64{windows.FILE_ACTION_ADDED: winx.VerifSysCreate, windows.FILE_ACTION_REMOVED: winx.VerifSysDelete, windows.FILE_ACTION_MODIFIED: winx.VerifSysModify,
		windows.FILE_ACTION_RENAMED_OLD_NAME: winx.VerifSysMovedFrom, windows.FILE_ACTION_RENAMED_NEW_NAME: winx.VerifSysMovedTo}
	for a := uint32(0); a < 1024; a++ {
		if got := winx.VerifWinToFsnotify(a); got != act[a] {
			c.Violate("windows-action", fmt.Sprintf("toFSnotifyFlags(action %d) = %#x, reference %#x", a, got, act[a]), a)
		}
		// end to end: action -> mask -> operations
		wantOp := map[uint32]winx.Op{windows.FILE_ACTION_ADDED: winx.Create, windows.FILE_ACTION_REMOVED: winx.Remove, windows.FILE_ACTION_MODIFIED: winx.Write,
			windows.FILE_ACTION_RENAMED_OLD_NAME: winx.Rename, windows.FILE_ACTION_RENAMED_NEW_NAME: winx.Create}[a]
		if got := winx.VerifWinNewEvent(uint32(winx.VerifWinToFsnotify(a))).Op; got != wantOp {
			c.Violate("windows-action", fmt.Sprintf("FILE_ACTION %d is reported as %s, documented %s", a, got, wantOp), a)
		}
	}
	for _, a := range []uint32{1 << 16, 1 << 31, ^uint32(0)} {
		if winx.VerifWinToFsnotify(a) != 0 {
			c.Violate("windows-action", fmt.Sprintf("out-of-range action %#x maps to a flag", a), a)
		}
	}
	c.Eval(1<<12 + 1024)
	c.Sample(map[string]interface{}{"backend": "windows", "mask": "sysFSMOVEDTO|sysFSMODIFY", "ops": winx.VerifWinNewEvent(uint32(winx.VerifSysMovedTo | winx.VerifSysModify)).Op.String()})
}

func c15Supports(c *core.Ctx) {
	w, err := real.NewWatcher()
	if err != nil {
		c.Broken(err.Error())
		return
	}
	defer w.Close()
	for m := 0; m < 512; m++ {
		var r real.Op
		var k kq.Op
		var wi winx.Op
		var f fenx.Op
		unportable := false
		for i := 0; i < 9; i++ {
			if m&(1<<i) != 0 {
				r |= real.Op(1 << i)
				k |= kq.Op(1 << i)
				wi |= winx.Op(1 << i)
				f |= fenx.Op(1 << i)
				if i >= 5 {
					unportable = true
				}
			}
		}
		c.Res.Counters["xsupports_evaluations"] += 4
		if !real.VerifSupports(w, r) {
			c.Violate("supports", fmt.Sprintf("inotify claims not to support %s", r), m)
		}
		for name, got := range map[string]bool{"kqueue": kq.VerifKqSupports(k), "windows": winx.VerifWinSupports(wi), "fen": fenx.VerifFenSupports(f)} {
			if got != !unportable {
				c.Violate("supports", fmt.Sprintf("%s: xSupports(%s) = %v; the five portable operations are always supported, the four unportable ones only on inotify", name, r, got), m)
			}
		}
	}
	c.Eval(512 * 4)
}
