package gchecks

import (
	"harness/core"
)

func init() {
	_ = core.Registry
}
