package gchecks

import (
	"fmt"
	"math/rand"
	"os"
	"path/filepath"
	"sort"
	"strings"
	"sync"
	"time"

	"harness/core"
	"kqsim/kdrv"
	fsnotify "kqsim/kqfsnotify"
	unix "kqsim/simunix"
)

const kqNote = "The kqueue KERNEL is a simulation (harness/gen/tmpl/simunix): knotes keyed by (dev,ino) of the open descriptor, EV_CLEAR accumulate-then-clear, notes posted by the driver as FreeBSD's vop_*_post hooks do. The backend code is the real backend_kqueue.go/shared.go/fsnotify.go copied from the working tree at build time. The simulation is validated against the repository's recorded kqueue/freebsd expectations before every run; a mismatch there is 'check broken', never a violation."

func init() {
	core.Register(&core.Check{
		ID:     "C17",
		Binary: "vgen",
		Level:  "exploration",
		Rule: "E-simkq ledger: PRNG sequential histories over 1-2 watched directories (+1 unwatched) holding files, sub-directories, FIFOs, symlinks (live, dangling, to watched targets), added under several spellings and through symlinks, with entries created/written/chmod'ed/removed/renamed (also onto existing entries, across directories), " +
			"user watches removed and re-added, watched directories removed with their contents; after EVERY step, at simulator quiescence: every open vnode descriptor is referenced by a table entry and vice versa, no descriptor points at a deleted file, WatchList == cleaned user paths; " +
			"after removing every user watch: no vnode descriptor and all five tables empty; after Close and reader exit: the descriptor ledger is empty (kqueue, pipe ends, vnode descriptors). Half of the histories Close with watches still present. " +
			"Directed family 'user watches inside a watched directory': the directory and 1-3 of its entries (files, a sub-directory) added by their own paths in either order, Remove of the directory (the user's entry watches stay listed, keep their descriptor and keep reporting; everything internal goes), then the rest (nothing left, including keys of the per-directory index). " +
			"Concurrent variant (also under the race detector): 3 API goroutines + a mutator + Close at a PRNG instant; the ledger must drain. Symlink-free histories are a separate stratum (no recorded finding can apply there). " +
			"distinct_nontrivial = distinct histories (case seed) with >=2 op kinds and >=1 event",
		Assumptions: []string{kqNote},
		Batches:     func(t string) int { return map[string]int{"quick": 12, "thorough": 48}[t] },
		RaceBatches: func(t string) int { return map[string]int{"quick": 2, "thorough": 12}[t] },
		MustObserve: []string{"simulator_validation_scripts_reproduced", "histories", "events_compared", "close_checks", "concurrent_histories", "user_inside_histories"},
		Run:         func(c *core.Ctx) { runKq(c, "C17") },
	})
	core.Register(&core.Check{
		ID:     "C18",
		Binary: "vgen",
		Level:  "exploration",
		Rule: "E-simkq + reference model: the same sequential histories with simulator quiescence after every step; a model predicts the events: no Create for entries present at Add (or at re-Add), exactly one Create per new entry (files, directories, FIFOs, symlinks, move-ins), " +
			"then Write/Chmod/Remove/Rename named Clean(arg)/entry (the link spelling for a symlinked watch path); overwrite-by-rename => Remove then Create; removing a watched directory => Remove for each entry and for it. Multisets compared per step. " +
			"The directed user-watches-inside-a-directory family of C17 contributes its event expectations (one event per change whoever asked for the watch; silence from what was removed). " +
			"Burst variant (k=2..8 steps between quiescence points): only the timing-independent part: never a Create for a pre-existing entry, at most one per incarnation, one for every entry created while watched that still exists. " +
			"distinct_nontrivial = distinct histories with >=2 op kinds and >=1 event",
		Assumptions: []string{kqNote, "moves of populated directories are not generated (per-entry watches follow the vnode; not modelled)"},
		Batches:     func(t string) int { return map[string]int{"quick": 12, "thorough": 48}[t] },
		MustObserve: []string{"simulator_validation_scripts_reproduced", "histories", "events_compared", "burst_histories"},
		Run:         func(c *core.Ctx) { runKq(c, "C18") },
	})
}

func runKq(c *core.Ctx, id string) {
	if c.Batch == 0 && c.Only < 0 {
		validateSimulator(c)
	}
	n := c.Pick(40, 200)
	if c.Race {
		n = c.Pick(10, 40)
	}
	for i := 0; i < n; i++ {
		rng, ok := c.CaseRng(i, "sequential kqueue history")
		if !ok {
			continue
		}
		o := kqOpts{Steps: 30 + rng.Intn(50), Symlinks: i%3 == 2, EntrySymlinks: i%3 == 2 && id == "C17", Fifos: rng.Intn(2) == 0, Dangling: i%12 == 5, CloseEarly: rng.Intn(2) == 0}
		if id == "C18" && i%4 == 3 {
			o.Burst = 2 + rng.Intn(7)
			c.Count("burst_histories", 1)
		}
		rep := kqHistory(rng, o)
		c.Eval(1)
		c.Count("histories", 1)
		c.Count("close_checks", 1)
		if o.Symlinks {
			c.Count("histories_with_symlinks", 1)
		} else {
			c.Count("histories_symlink_free", 1)
		}
		kqStats(c, &rep)
		if len(rep.OpKinds) >= 2 && rep.Events > 0 {
			c.Distinct(id, c.Batch, i)
		}
		for _, f := range rep.Findings {
			if f.Kind == "harness" || f.Kind == "no-quiescence" {
				c.Inconclusive(f.Kind + ": " + f.Detail)
				continue
			}
			if f.Owner != id {
				c.Count("findings_of_the_sibling_property_seen", 1)
				continue
			}
			sig := f.Kind
			if strings.HasPrefix(sig, "K") && !(o.Symlinks || o.Dangling || o.Fifos) {
				sig = "misclassified:" + sig // a recorded finding's shape outside its stratum: never suppressed
			}
			c.Violate(sig, fmt.Sprintf("%s [symlinks=%v fifos=%v dangling=%v burst=%d]; history tail %v", f.Detail, o.Symlinks, o.Fifos, o.Dangling, o.Burst, f.Log), f)
		}
		if i < 2 && len(rep.Findings) == 0 {
			c.Sample(map[string]interface{}{"options": o, "steps": rep.Steps, "events": rep.Events, "op_kinds": rep.OpKinds})
		}
	}
	for i := 0; i < c.Pick(20, 120); i++ {
		rng, ok := c.CaseRng(7000+i, "user watches inside a watched directory")
		if !ok {
			continue
		}
		rep := kqUserInside(rng)
		c.Eval(1)
		c.Count("user_inside_histories", 1)
		kqStats(c, &rep)
		if rep.Events > 0 {
			c.Distinct(id, "user-inside", c.Batch, i)
		}
		for _, f := range rep.Findings {
			if f.Kind == "harness" || f.Kind == "no-quiescence" {
				c.Inconclusive(f.Kind + ": " + f.Detail)
				continue
			}
			if f.Owner != id {
				c.Count("findings_of_the_sibling_property_seen", 1)
				continue
			}
			c.Violate(f.Kind, fmt.Sprintf("%s; history %v", f.Detail, f.Log), f)
		}
	}
	if id == "C17" {
		m := c.Pick(40, 150)
		for i := 0; i < m; i++ {
			rng, ok := c.CaseRng(5000+i, "concurrent kqueue history")
			if !ok {
				continue
			}
			kqConcurrent(c, rng)
		}
	}
}

func kqConcurrent(c *core.Ctx, rng *rand.Rand) {
	if l := unix.Ledger(); len(l) > 0 {
		c.Inconclusive(fmt.Sprintf("ledger not empty at the start of a concurrent history: %v", l))
		for fd := range l {
			unix.Close(fd)
		}
	}
	tmp, _ := os.MkdirTemp("", "kqc")
	tmp, _ = filepath.EvalSymlinks(tmp)
	defer os.RemoveAll(tmp)
	dirs := []string{filepath.Join(tmp, "d1"), filepath.Join(tmp, "d2")}
	for _, d := range dirs {
		os.Mkdir(d, 0o755)
		os.WriteFile(filepath.Join(d, "pre"), nil, 0o644)
	}
	w, err := fsnotify.NewWatcher()
	if err != nil {
		c.Broken(err.Error())
		return
	}
	done := make(chan struct{})
	go func() {
		defer close(done)
		ev, er := w.Events, w.Errors
		for ev != nil || er != nil {
			select {
			case _, ok := <-ev:
				if !ok {
					ev = nil
				}
			case _, ok := <-er:
				if !ok {
					er = nil
				}
			}
		}
	}()
	var wg sync.WaitGroup
	stop := make(chan struct{})
	wg.Add(1)
	ms := rng.Int63()
	go func() {
		defer wg.Done()
		r := rand.New(rand.NewSource(ms))
		for {
			select {
			case <-stop:
				return
			default:
			}
			p := filepath.Join(dirs[r.Intn(2)], fmt.Sprint("f", r.Intn(4)))
			switch r.Intn(3) {
			case 0:
				if f, err := kdrv.OpenFile(p, os.O_CREATE|os.O_RDWR, 0o644); err == nil {
					f.Close()
				}
			case 1:
				kdrv.Remove(p)
			case 2:
				kdrv.Rename(p, filepath.Join(dirs[r.Intn(2)], fmt.Sprint("f", r.Intn(4))))
			}
		}
	}()
	var addOK sync.Map
	for g := 0; g < 3; g++ {
		wg.Add(1)
		gs := rng.Int63()
		go func() {
			defer wg.Done()
			r := rand.New(rand.NewSource(gs))
			for k := 0; k < 10; k++ {
				d := dirs[r.Intn(2)]
				switch r.Intn(3) {
				case 0:
					if w.Add(d) == nil {
						addOK.Store(d, true)
					}
				case 1:
					w.Remove(d)
				case 2:
					w.WatchList()
				}
			}
		}()
	}
	time.Sleep(time.Duration(rng.Intn(500)) * time.Microsecond)
	w.Close()
	close(stop)
	wg.Wait()
	select {
	case <-done:
	case <-time.After(20 * time.Second):
		c.Inconclusive("concurrent: channels not closed at the watchdog")
		return
	}
	var led map[int]string
	readerDone := false
	for i := 0; i < 400000 && !readerDone; i++ {
		led = unix.Ledger()
		readerDone = true
		for _, what := range led {
			if what == "kqueue" || what == "pipe-r" {
				readerDone = false
			}
		}
		if !readerDone {
			time.Sleep(50 * time.Microsecond)
		}
	}
	if !readerDone {
		c.Inconclusive("concurrent: reader did not exit within 20 s")
		return
	}
	led = unix.Ledger()
	c.Count("concurrent_histories", 1)
	c.Eval(1)
	c.Distinct("conc", c.Batch, rng.Int63())
	if len(led) > 0 {
		var l []string
		for fd, what := range led {
			l = append(l, fmt.Sprintf("%d:%s", fd, strings.TrimPrefix(what, tmp)))
		}
		sort.Strings(l)
		c.Violate("K6-add-racing-close-leaks-descriptor", fmt.Sprintf("Add/Remove/WatchList from 3 goroutines racing Close: %d descriptors still open after Close returned and the reader exited: %v", len(led), l), l)
		for fd := range led {
			unix.Close(fd)
		}
	}
}
