// Package gchecks holds the checks that run code copied from the working tree:
// the real kqueue backend on the simulated kqueue (C17, C18) and the pure
// translation functions of every backend (C15).
package gchecks

import (
	"fmt"
	"io/fs"
	"os"
	"path/filepath"
	"sort"
	"strconv"
	"strings"
	"sync"
	"time"

	"harness/core"
	"kqsim/kdrv"
	fsnotify "kqsim/kqfsnotify"
	unix "kqsim/simunix"
)

var repoDir = func() string {
	if d := os.Getenv("VERIF_REPO"); d != "" {
		return d
	}
	return "/repo"
}()

type collector struct {
	w     *fsnotify.Watcher
	mu    sync.Mutex
	evs   []fsnotify.Event
	errs  []error
	flush chan chan struct{}
	done  chan struct{}
}

func newCollector(w *fsnotify.Watcher) *collector {
	c := &collector{w: w, flush: make(chan chan struct{}), done: make(chan struct{})}
	go func() {
		defer close(c.done)
		ev, er := w.Events, w.Errors
		for ev != nil || er != nil {
			select {
			case e, ok := <-ev:
				if !ok {
					ev = nil
					continue
				}
				c.mu.Lock()
				c.evs = append(c.evs, e)
				c.mu.Unlock()
			case e, ok := <-er:
				if !ok {
					er = nil
					continue
				}
				c.mu.Lock()
				c.errs = append(c.errs, e)
				c.mu.Unlock()
			case f := <-c.flush:
				close(f)
			}
		}
	}()
	return c
}

// quiesce waits until the simulated kernel has nothing pending for this
// Watcher and its reader is parked in Kevent (read from the simulator state,
// not a sleep), then lets the collector take what was sent. false = watchdog.
func (c *collector) quiesce() bool {
	kq := fsnotify.VerifKqFd(c.w)
	dl := time.Now().Add(20 * time.Second)
	for !unix.Quiescent(kq) {
		if time.Now().After(dl) {
			return false
		}
		time.Sleep(10 * time.Microsecond)
	}
	f := make(chan struct{})
	select {
	case c.flush <- f:
		<-f
	case <-c.done:
	}
	return true
}

func (c *collector) take() (evs []string, errs []error) {
	c.mu.Lock()
	defer c.mu.Unlock()
	for _, e := range c.evs {
		evs = append(evs, e.Op.String()+" "+e.Name)
	}
	errs = c.errs
	c.evs, c.errs = nil, nil
	return
}

func vnodeFds(led map[int]string) map[int]string {
	out := map[int]string{}
	for fd, what := range led {
		if what != "kqueue" && !strings.HasPrefix(what, "pipe") {
			out[fd] = what
		}
	}
	return out
}

func trimAll(l []string, tmp string) []string {
	var o []string
	for _, s := range l {
		o = append(o, strings.ReplaceAll(s, tmp, ""))
	}
	return o
}

// ------------------------------------------------------------------------
// Simulator validation: replay the repository's testdata scripts through the
// real kqueue backend on the simulated kqueue and compare with the recorded
// kqueue/freebsd expectation.

type scriptResult struct {
	name    string
	skipped string
	have    []string
	want    []string
	errs    []error
	leak    int
}

func parseWant(s string) []string {
	groups := []string{""}
	events := map[string][]string{}
	has := map[string]bool{}
	order := map[string]int{"CREATE": 0, "REMOVE": 1, "WRITE": 2, "OPEN": 3, "READ": 4, "CLOSE_WRITE": 5, "CLOSE_READ": 6, "RENAME": 7, "CHMOD": 8}
	for _, line := range strings.Split(s, "\n") {
		if i := strings.IndexByte(line, '#'); i > -1 {
			line = line[:i]
		}
		line = strings.TrimSpace(line)
		if line == "" {
			continue
		}
		if strings.HasSuffix(line, ":") {
			groups = strings.Split(strings.TrimRight(line, ":"), ",")
			for i := range groups {
				groups[i] = strings.TrimSpace(groups[i])
			}
			continue
		}
		f := strings.Fields(line)
		if len(f) != 2 && len(f) != 4 {
			if l := strings.ToLower(f[0]); l == "empty" || l == "no-events" {
				for _, g := range groups {
					events[g] = []string{}
					has[g] = true
				}
				continue
			}
			return []string{"<unparsable expectation: " + line + ">"}
		}
		ops := strings.Split(strings.ToUpper(f[0]), "|")
		sort.Slice(ops, func(i, j int) bool { return order[ops[i]] < order[ops[j]] })
		for _, g := range groups {
			events[g] = append(events[g], strings.Join(ops, "|")+" "+strings.Trim(f[1], `"`))
			has[g] = true
		}
	}
	for _, g := range []string{"freebsd", "kqueue", ""} {
		if has[g] {
			return events[g]
		}
	}
	return nil
}

func runScript(name, script string) (res scriptResult) {
	res.name = name
	tmp, _ := os.MkdirTemp("", "kqr")
	tmp, _ = filepath.EvalSymlinks(tmp)
	defer os.RemoveAll(tmp)
	tmppath := func(s string) string {
		if s == "" {
			return ""
		}
		if !strings.HasPrefix(s, "./") {
			return filepath.Join(tmp, s)
		}
		return s
	}
	var cmds [][]string
	var want string
	readW := false
	for _, line := range strings.Split(script, "\n") {
		line = strings.TrimSpace(line)
		if line == "" || line[0] == '#' {
			continue
		}
		if readW {
			want += line + "\n"
			continue
		}
		if i := strings.IndexByte(line, '#'); i > -1 {
			line = strings.TrimSpace(line[:i])
		}
		if line == "Output:" {
			readW = true
			continue
		}
		var args []string
		var cur []rune
		q := false
		app := func() {
			if len(cur) > 0 {
				args = append(args, string(cur))
				cur = cur[:0]
			}
		}
		for _, ch := range line {
			switch ch {
			case ' ', '\t':
				if q {
					cur = append(cur, ch)
				} else {
					app()
				}
			case '"', '\'':
				q = !q
			default:
				cur = append(cur, ch)
			}
		}
		app()
		if len(args) > 0 {
			cmds = append(cmds, args)
		}
	}
	for _, c := range cmds {
		if (c[0] == "skip" || c[0] == "require") && len(c) > 1 {
			switch c[1] {
			case "op_all", "op_open", "op_read", "op_close_write", "op_close_read", "always", "mknod", "recurse", "filter", "nofollow":
				res.skipped = "requires " + c[1]
				return
			}
		}
	}
	if strings.Contains(name, "unreadable-file") && os.Geteuid() == 0 {
		res.skipped = "expectation needs open() to fail with EACCES; running as root"
		return
	}
	w, err := fsnotify.NewWatcher()
	if err != nil {
		res.errs = append(res.errs, err)
		return
	}
	col := newCollector(w)
	sep := func() {
		if !col.quiesce() {
			res.errs = append(res.errs, fmt.Errorf("no quiescence"))
		}
	}
	must := func(err error) {
		if err != nil {
			res.errs = append(res.errs, fmt.Errorf("driver: %w", err))
		}
	}
	echo := func(trunc bool, data, p string) {
		var f *os.File
		var err error
		if trunc {
			f, err = kdrv.OpenFile(p, os.O_RDWR|os.O_CREATE|os.O_TRUNC, 0o666)
		} else {
			f, err = kdrv.OpenFile(p, os.O_RDWR|os.O_CREATE|os.O_APPEND, 0o666)
		}
		if err != nil {
			must(err)
			return
		}
		sep()
		must(kdrv.Write(f, data))
		sep()
		f.Close()
	}
loop:
	for _, c := range cmds {
		switch c[0] {
		case "skip", "require", "debug", "print", "state":
		case "stop":
			break loop
		case "watch":
			if len(c) != 2 {
				res.skipped = "watch with options"
				w.Close()
				<-col.done
				for fd := range unix.Ledger() {
					unix.Close(fd)
				}
				return
			}
			if err := w.Add(tmppath(c[1])); err != nil {
				res.errs = append(res.errs, fmt.Errorf("Add: %w", err))
			}
		case "unwatch":
			if err := w.Remove(tmppath(c[1])); err != nil {
				res.errs = append(res.errs, fmt.Errorf("Remove: %w", err))
			}
		case "watchlist":
			n, _ := strconv.Atoi(c[1])
			if l := w.WatchList(); len(l) != n {
				res.errs = append(res.errs, fmt.Errorf("watchlist %d != %d: %q", len(l), n, l))
			}
		case "touch":
			f, err := kdrv.OpenFile(tmppath(c[1]), os.O_RDWR|os.O_CREATE|os.O_TRUNC, 0o666)
			must(err)
			if f != nil {
				f.Close()
			}
			sep()
		case "mkdir":
			if len(c) == 3 && c[1] == "-p" {
				must(kdrv.MkdirAll(tmppath(c[2])))
			} else {
				must(kdrv.Mkdir(tmppath(c[1])))
			}
			sep()
		case "ln":
			must(kdrv.Symlink(tmppath(c[2]), tmppath(c[3])))
			sep()
		case "mkfifo":
			must(kdrv.Mkfifo(tmppath(c[1])))
			sep()
		case "mv":
			must(kdrv.Rename(tmppath(c[1]), tmppath(c[2])))
			sep()
		case "rm":
			if len(c) == 3 && c[1] == "-r" {
				must(kdrv.RemoveAll(tmppath(c[2])))
			} else {
				must(kdrv.Remove(tmppath(c[1])))
			}
			sep()
		case "chmod":
			n, _ := strconv.ParseUint(c[1], 8, 32)
			must(kdrv.Chmod(tmppath(c[2]), fs.FileMode(n)))
			sep()
		case "cat":
			os.ReadFile(tmppath(c[1]))
			sep()
		case "echo":
			var data, op, dst string
			if len(c) == 3 {
				data, op, dst = c[1], c[2][:1], c[2][1:]
				if strings.HasPrefix(dst, ">") {
					op, dst = op+dst[:1], dst[1:]
				}
			} else if len(c) >= 4 {
				data, op, dst = c[1], c[2], c[3]
			}
			echo(op == ">", data, tmppath(dst))
		case "sleep":
			sep()
		default:
			res.errs = append(res.errs, fmt.Errorf("unknown command %q", c[0]))
		}
	}
	col.quiesce()
	w.Close()
	<-col.done
	time.Sleep(time.Millisecond)
	col.mu.Lock()
	for _, e := range col.evs {
		n := e.Name
		if n == tmp {
			n = "/"
		} else {
			n = strings.TrimPrefix(n, tmp)
		}
		res.have = append(res.have, e.Op.String()+" "+n)
	}
	res.errs = append(res.errs, col.errs...)
	col.mu.Unlock()
	res.want = parseWant(want)
	led := unix.Ledger()
	res.leak = len(led)
	for fd := range led {
		unix.Close(fd)
	}
	return
}

// validateSimulator replays every testdata script; a mismatch is a SIMULATOR
// failure (check broken), never a property violation.
func validateSimulator(c *core.Ctx) (leaky int) {
	root := filepath.Join(repoDir, "testdata")
	var files []string
	filepath.Walk(root, func(p string, fi fs.FileInfo, err error) error {
		if err == nil && !fi.IsDir() {
			files = append(files, p)
		}
		return nil
	})
	sort.Strings(files)
	pass, skip := 0, 0
	for _, f := range files {
		rel := strings.TrimPrefix(f, root+"/")
		b, _ := os.ReadFile(f)
		r := runScript(rel, string(b))
		if r.skipped != "" {
			skip++
			c.Hist("simulator_validation_skipped", r.skipped, 1)
			continue
		}
		h, w := append([]string{}, r.have...), append([]string{}, r.want...)
		sort.Strings(h)
		sort.Strings(w)
		if strings.Join(h, "\n") != strings.Join(w, "\n") || len(r.errs) > 0 {
			c.Broken(fmt.Sprintf("simulator validation: script %s: have %q want %q errs %v", rel, r.have, r.want, r.errs))
			continue
		}
		pass++
		if r.leak > 0 {
			leaky++
		}
	}
	c.Count("simulator_validation_scripts_reproduced", int64(pass))
	c.Count("simulator_validation_scripts_skipped", int64(skip))
	if pass < 30 {
		c.Broken(fmt.Sprintf("simulator validation reproduced only %d scripts", pass))
	}
	return leaky
}
