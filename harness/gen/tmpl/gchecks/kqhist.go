package gchecks

import (
	"errors"
	"fmt"
	"math/rand"
	"os"
	"path/filepath"
	"sort"
	"strings"
	"syscall"
	"time"

	"harness/core"
	"kqsim/kdrv"
	fsnotify "kqsim/kqfsnotify"
	unix "kqsim/simunix"
)

type finding struct {
	Owner  string   `json:"owner"` // C17 (descriptors, tables, listing) or C18 (events)
	Kind   string   `json:"kind"`
	Detail string   `json:"detail"`
	Log    []string `json:"log"`
}

type kqOpts struct {
	Steps         int
	Symlinks      bool // user watches through symlinks
	EntrySymlinks bool // also symlinks as ENTRIES of watched directories (their per-entry watch follows the link: only descriptor accounting is meaningful)
	Fifos         bool
	Dangling      bool // a dangling symlink inside a watched dir
	Burst         int  // >1: quiesce only every Burst steps (timing-independent assertions only)
	CloseEarly    bool // Close at a PRNG point instead of after removing everything
}

type kqReport struct {
	Findings []finding
	Events   int
	Steps    int
	Adds     int
	Removes  int
	OpKinds  map[string]int
	Fflags   map[string]int // registered fflags per knote class
	MaxFds   int
}

// kqHistory runs one sequential history against the real kqueue backend on the
// simulated kqueue, with a reference model of events, descriptors and listing.
func kqHistory(rng *rand.Rand, o kqOpts) (rep kqReport) {
	rep.OpKinds = map[string]int{}
	rep.Fflags = map[string]int{}
	tmp, _ := os.MkdirTemp("", "kqx")
	tmp, _ = filepath.EvalSymlinks(tmp)
	defer os.RemoveAll(tmp)
	// Every history ends with Close and waits for its reader to exit (closeAndCheck), so the
	// ledger must be empty here; anything left belongs to a goroutine that may still be running.
	if l := unix.Ledger(); len(l) > 0 {
		rep.Findings = append(rep.Findings, finding{"", "harness", fmt.Sprintf("ledger not empty at the start of a history: %v", l), nil})
		return
	}
	d1, d2, u := filepath.Join(tmp, "d1"), filepath.Join(tmp, "d2"), filepath.Join(tmp, "u")
	dirs := []string{d1, d2, u}
	for _, d := range dirs {
		os.Mkdir(d, 0o755)
	}
	names := []string{"a", "b", "c", "d"}
	for _, d := range dirs {
		for _, n := range names[:2] {
			if rng.Intn(2) == 0 {
				os.WriteFile(filepath.Join(d, n), []byte("x"), 0o644)
			}
		}
		if rng.Intn(3) == 0 {
			os.Mkdir(filepath.Join(d, "c"), 0o755)
		}
	}
	everFifo := map[string]bool{}        // real paths that have been a named pipe at some point of the history
	everUnwatchable := map[string]bool{} // event names of entries the backend cannot open (pipes, dangling symlinks)
	if o.Fifos && rng.Intn(2) == 0 {
		syscall.Mkfifo(filepath.Join(d1, "fifo0"), 0o644)
		everFifo[filepath.Join(d1, "fifo0")] = true
	}
	if o.Dangling {
		os.Symlink(filepath.Join(tmp, "nowhere"), filepath.Join(d2, "dangling"))
	}
	ld1 := filepath.Join(tmp, "ld1") // symlink to d1
	lf := filepath.Join(tmp, "lf")   // symlink to u/a (a file outside the watched dirs)
	if o.Symlinks {
		os.Symlink(d1, ld1)
		os.WriteFile(filepath.Join(u, "a"), []byte("x"), 0o644)
		os.Symlink(filepath.Join(u, "a"), lf)
		if o.EntrySymlinks && rng.Intn(2) == 0 {
			os.Symlink(filepath.Join(d2, "a"), filepath.Join(d1, "ln-in-dir")) // symlink inside a watched dir
		}
	}
	w, err := fsnotify.NewWatcher()
	if err != nil {
		rep.Findings = append(rep.Findings, finding{"", "harness", "NewWatcher: " + err.Error(), nil})
		return
	}
	col := newCollector(w)
	closed := false
	defer func() {
		if !closed { // early exit (no quiescence, harness problem): still close and wait for the reader
			w.Close()
			select {
			case <-col.done:
			case <-time.After(20 * time.Second):
			}
			for i := 0; i < 400000; i++ {
				busy := false
				for _, what := range unix.Ledger() {
					if what == "kqueue" || what == "pipe-r" {
						busy = true
					}
				}
				if !busy {
					break
				}
				time.Sleep(50 * time.Microsecond)
			}
			for fd := range unix.Ledger() {
				unix.Close(fd)
			}
		}
	}()
	// model
	watched := map[string]string{} // real dir -> name prefix used in events (spelling)
	user := map[string]bool{}      // cleaned user paths that WatchList must show
	fileWatch := map[string]string{}
	prefixReal := map[string]string{} // every event-name prefix ever used -> real directory (never forgotten)
	var log []string
	owner := "C17"
	report := func(kind, detail string) {
		if len(rep.Findings) < 12 {
			rep.Findings = append(rep.Findings, finding{owner, kind, strings.ReplaceAll(detail, tmp, ""), append([]string{}, log[imax(0, len(log)-10):]...)})
		}
	}
	quiesce := func() bool {
		if !col.quiesce() {
			report("no-quiescence", "reader never parked in Kevent with an empty queue")
			return false
		}
		return true
	}
	// seen[dirPrefix/entry]: entries of watched dirs for which a Create must not be sent again
	alive := true
	doAdd := func(real, spell string) {
		err := w.Add(spell)
		log = append(log, fmt.Sprintf("Add(%q)=%v", strings.TrimPrefix(spell, tmp), err))
		rep.Adds++
		if err != nil {
			if _, serr := os.Stat(spell); serr == nil {
				kind := "add-failed"
				if ents, e := os.ReadDir(real); e == nil {
					for _, en := range ents {
						pp := filepath.Join(real, en.Name())
						if _, le := os.Lstat(pp); le == nil {
							if _, se := os.Stat(pp); se != nil && strings.Contains(err.Error(), "no such file or directory") {
								kind = "K5-add-dir-with-dangling-symlink"
							}
						}
					}
				}
				report(kind, fmt.Sprintf("Add(%q) of an existing path failed: %v", spell, err))
				alive = false
			}
			return
		}
		fi, _ := os.Stat(real)
		cs := filepath.Clean(spell)
		if fi != nil && fi.IsDir() {
			prefixReal[cs] = real
			if _, ok := watched[real]; !ok {
				watched[real] = cs
			}
		} else {
			if _, ok := fileWatch[real]; !ok {
				fileWatch[real] = cs
			}
		}
		user[cs] = true
	}
	spellOf := func(d string) string {
		switch rng.Intn(5) {
		case 0:
			return d + "/"
		case 1:
			return filepath.Dir(d) + "/./" + filepath.Base(d)
		}
		return d
	}
	if o.Symlinks && rng.Intn(2) == 0 {
		doAdd(d1, ld1)
	} else {
		doAdd(d1, spellOf(d1))
	}
	if rng.Intn(2) == 0 {
		doAdd(d2, spellOf(d2))
	}
	if o.Symlinks && rng.Intn(2) == 0 {
		doAdd(filepath.Join(u, "a"), lf)
	}
	if !quiesce() {
		return
	}
	if e, _ := col.take(); len(e) > 0 {
		owner = "C18"
		report("events-at-add", fmt.Sprintf("adding a directory with existing entries produced %q", e))
	}
	linkTargetGone := false // the file watched through the symlink lf has been deleted/renamed
	ld1Gone := false        // the directory watched through the symlink ld1 has been removed
	k2Done := false         // Remove(target of ld1) was accepted (finding K2); what follows is its consequence
	var want []string
	evName := func(p string) (string, bool) { // event name for real path p inside a watched dir
		pre, ok := watched[filepath.Dir(p)]
		if !ok {
			return "", false
		}
		return pre + "/" + filepath.Base(p), true
	}
	// The backend deliberately does not open named pipes and sockets ("Don't
	// watch sockets or named pipes"): such an entry is announced with Create and
	// nothing can be reported about it afterwards. The model follows that.
	isFifo := func(fi os.FileInfo) bool { return fi != nil && fi.Mode()&os.ModeNamedPipe != 0 }
	// same for a dangling symlink: open() fails, the entry cannot be watched
	unwatchable := func(p string, fi os.FileInfo) bool {
		if isFifo(fi) {
			return true
		}
		if fi != nil && fi.Mode()&os.ModeSymlink != 0 {
			_, err := os.Stat(p)
			return err != nil
		}
		return false
	}
	// entries the backend could not open at Add time (pipes, dangling symlinks): recorded now, because the
	// directory's watch may be removed by the very first step, before the per-step scan sees it
	for d, pre := range watched {
		ents, _ := os.ReadDir(d)
		for _, e := range ents {
			pp := filepath.Join(d, e.Name())
			if fi, err := os.Lstat(pp); err == nil && unwatchable(pp, fi) {
				everUnwatchable[pre+"/"+e.Name()] = true
				everUnwatchable[pp] = true
			}
		}
	}
	// a user watch on a single file (added through a symlink) reports under its spelling
	fileEv := func(p, op string) {
		if sp, ok := fileWatch[p]; ok {
			want = append(want, op+" "+sp)
			if op == "REMOVE" || op == "RENAME" {
				delete(fileWatch, p)
				delete(user, sp)
				linkTargetGone = true
			}
		}
	}
	invariants := func(step int) {
		st := fsnotify.VerifKq(w)
		led := vnodeFds(unix.Ledger())
		if len(led) > rep.MaxFds {
			rep.MaxFds = len(led)
		}
		for fd, what := range led {
			if _, ok := st.Wd[fd]; !ok {
				report("orphan-fd", fmt.Sprintf("step %d: descriptor %d (%s) is open but no table entry references it", step, fd, what))
			}
			var s syscall.Stat_t
			if syscall.Fstat(fd, &s) == nil && s.Nlink == 0 {
				kind := "fd-to-deleted-file"
				if lw := st.WdLink[fd]; lw == lf || lw == ld1 {
					kind = "K3-link-watch-target-deleted"
				}
				report(kind, fmt.Sprintf("step %d: descriptor %d (%s) still open after its file was deleted", step, fd, what))
			}
		}
		for fd, name := range st.Wd {
			if _, ok := led[fd]; !ok {
				report("dangling-wd", fmt.Sprintf("step %d: table entry %d (%s) is not an open descriptor", step, fd, name))
			}
		}
		for fd, fl := range unix.Knotes(fsnotify.VerifKqFd(w)) {
			name := st.Wd[fd]
			cls := "entry-file"
			switch {
			case user[name] || user[st.WdLink[fd]]:
				cls = "user-path"
			case st.WdDir[fd]:
				cls = "entry-subdir"
			}
			rep.Fflags[fmt.Sprintf("%s:%#x", cls, fl)]++
		}
		wl := w.WatchList()
		sort.Strings(wl)
		var wantl []string
		for p := range user {
			wantl = append(wantl, p)
		}
		sort.Strings(wantl)
		if strings.Join(wl, "|") != strings.Join(wantl, "|") {
			kind := "watchlist-mismatch"
			// K3 shape: the only difference is a symlink spelling whose watched target is gone
			diff := map[string]int{}
			for _, p := range wl {
				diff[p]++
			}
			for _, p := range wantl {
				diff[p]--
			}
			k3 := linkTargetGone || ld1Gone
			for p, k := range diff {
				if k != 0 && !(k == 1 && ((p == lf && linkTargetGone) || (p == ld1 && ld1Gone))) {
					k3 = false
				}
			}
			if k3 {
				kind = "K3-link-watch-target-deleted"
			}
			report(kind, fmt.Sprintf("step %d: WatchList %q, user added %q", step, trimAll(wl, tmp), trimAll(wantl, tmp)))
		}
	}
	// burst bookkeeping (timing-independent assertions)
	preexisting := map[string]bool{}
	for d, pre := range watched {
		ents, _ := os.ReadDir(d)
		for _, e := range ents {
			preexisting[pre+"/"+e.Name()] = true
		}
	}
	createdWhileWatched := map[string]int{} // event name -> incarnations created
	_ = createdWhileWatched
	winTouch, winCreated := map[string]int{}, map[string]int{}
	burstCreates := map[string]int{}
	var burstErrs []string
	var burstAll []string
	unstableDir := map[string]bool{} // event-name prefixes of directories whose watch was removed/re-added/ended during the history
	isFifoName := func(nm string) bool {
		for pre, d := range prefixReal {
			if strings.HasPrefix(nm, pre+"/") {
				return everFifo[filepath.Join(d, strings.TrimPrefix(nm, pre+"/"))]
			}
		}
		return false
	}
	flush := func(s int, desc string) bool {
		if !quiesce() {
			return false
		}
		got, errs := col.take()
		rep.Events += len(got)
		owner = "C18"
		if os.Getenv("VGEN_DEBUG") != "" {
			fmt.Fprintf(os.Stderr, "FLUSH step %d (%s): got %v errs %v knotes %v ledger %v\n", s, desc, trimAll(got, tmp), errs, unix.Knotes(fsnotify.VerifKqFd(w)), unix.Ledger())
		}
		for _, e := range errs {
			kind := "errors"
			if o.Burst > 1 {
				burstErrs = append(burstErrs, e.Error())
				rep.OpKinds["burst-values-on-errors-not-judged"]++ // C18 does not speak about Errors; with the reader lagging, lookups race with the driver and with Remove()
				continue
			}
			if linkTargetGone && strings.Contains(e.Error(), "no such file or directory") {
				kind = "K3-link-watch-target-deleted"
			}
			report(kind, fmt.Sprintf("step %d (%s): %v on Errors", s, desc, e))
		}
		if o.Burst <= 1 {
			g, ww := append([]string{}, got...), append([]string{}, want...)
			sort.Strings(g)
			sort.Strings(ww)
			if strings.Join(g, "|") != strings.Join(ww, "|") {
				// K4 shape: the only difference is extra Creates for FIFOs that already exist
				cnt := map[string]int{}
				for _, e := range ww {
					cnt[e]--
				}
				for _, e := range g {
					cnt[e]++
				}
				k4 := true
				nExtra := 0
				for e, k := range cnt {
					if k == 0 {
						continue
					}
					nExtra++
					f := strings.SplitN(e, " ", 2)
					real := ""
					for pre, d := range prefixReal {
						if strings.HasPrefix(f[1], pre+"/") {
							real = filepath.Join(d, strings.TrimPrefix(f[1], pre+"/"))
						}
					}
					if k < 0 || f[0] != "CREATE" || real == "" || !everFifo[real] {
						k4 = false
					}
				}
				kind := "event-mismatch:" + strings.Fields(desc)[0]
				// Recorded shapes: every difference is an EXTRA Create, either of a named pipe that
				// already exists (K4) or under the spelling of a symlink whose target just went away (K3).
				k3n, k4n, other := 0, 0, 0
				for e, k := range cnt {
					if k == 0 {
						continue
					}
					f := strings.SplitN(e, " ", 2)
					real := ""
					for pre, d := range prefixReal {
						if strings.HasPrefix(f[1], pre+"/") {
							real = filepath.Join(d, strings.TrimPrefix(f[1], pre+"/"))
						}
					}
					switch {
					case k == 1 && f[0] == "CREATE" && f[1] == lf && linkTargetGone:
						k3n++
					case k > 0 && f[0] == "CREATE" && real != "" && everFifo[real]:
						k4n++
					default:
						other++
					}
				}
				_ = k4
				if other == 0 && k3n > 0 {
					kind = "K3-link-watch-target-deleted"
				} else if other == 0 && k4n > 0 {
					kind = "K4-fifo-reannounced"
				}
				report(kind, fmt.Sprintf("step %d (%s): have %q want %q", s, desc, trimAll(got, tmp), trimAll(want, tmp)))
			}
		} else {
			// Burst mode: events are only collected here; they are judged once, at the end of
			// the history, and only for names whose whole history is unambiguous (see below).
			burstAll = append(burstAll, got...)
			burstAll = append(burstAll, "--")
			for _, e := range got {
				if f := strings.SplitN(e, " ", 2); strings.Contains(f[0], "CREATE") {
					burstCreates[f[1]]++
				}
			}
		}
		want = nil
		owner = "C17"
		for d, pre := range watched {
			ents, _ := os.ReadDir(d)
			for _, e := range ents {
				pp := filepath.Join(d, e.Name())
				if fi, err := os.Lstat(pp); err == nil && unwatchable(pp, fi) {
					everUnwatchable[pre+"/"+e.Name()] = true
					everUnwatchable[pp] = true // the tables of a watch added through a symlink are keyed by the real path
				}
			}
		}
		invariants(s)
		return true
	}
	for s := 0; s < o.Steps && alive && len(rep.Findings) == 0; s++ {
		d := dirs[rng.Intn(3)]
		n := names[rng.Intn(len(names))]
		p := filepath.Join(d, n)
		fi, lerr := os.Lstat(p)
		exists := lerr == nil
		_, W := watched[d]
		// In bursts a name never changes its type: a/b are files, c/d directories. (A name that
		// turns from a directory into a file before the reader has caught up leaves a stale
		// directory watch under that name; the next directory diff then fails with ENOTDIR on it
		// and silently skips the entries sorted after it — observation O2 in DESIGN.md.)
		dirName := func(x string) bool { return x == "c" || x == "d" }
		desc := ""
		wantMark := len(want)
		touchedFifo := ""
		if nm, ok := evName(p); ok && isFifo(fi) {
			touchedFifo = nm
		}
		switch op := rng.Intn(14); {
		case op <= 1:
			if exists || (o.Burst > 1 && dirName(n)) {
				continue
			}
			f, err := kdrv.OpenFile(p, os.O_RDWR|os.O_CREATE, 0o644)
			if err != nil {
				continue
			}
			f.Close()
			desc = "create " + p
			if nm, ok := evName(p); ok {
				want = append(want, "CREATE "+nm)
				createdWhileWatched[nm]++
			}
		case op == 2:
			if !exists || !fi.Mode().IsRegular() {
				continue
			}
			f, err := kdrv.OpenFile(p, os.O_RDWR|os.O_APPEND, 0o644)
			if err != nil {
				continue
			}
			kdrv.Write(f, "x")
			f.Close()
			desc = "write " + p
			if nm, ok := evName(p); ok {
				want = append(want, "WRITE "+nm)
			}
			fileEv(p, "WRITE")
		case op == 3:
			if !exists || !fi.Mode().IsRegular() {
				continue
			}
			kdrv.Chmod(p, os.FileMode(0o600+rng.Intn(0o100)))
			desc = "chmod " + p
			if nm, ok := evName(p); ok {
				want = append(want, "CHMOD "+nm)
			}
			fileEv(p, "CHMOD")
		case op <= 5:
			if !exists {
				continue
			}
			if fi.IsDir() {
				if ents, _ := os.ReadDir(p); len(ents) > 0 {
					continue
				}
			}
			if kdrv.Remove(p) != nil {
				continue
			}
			desc = "remove " + p
			if nm, ok := evName(p); ok && !isFifo(fi) {
				want = append(want, "REMOVE "+nm)
			}
			fileEv(p, "REMOVE")
		case op == 6:
			if exists || (o.Burst > 1 && !dirName(n)) {
				continue
			}
			if kdrv.Mkdir(p) != nil {
				continue
			}
			desc = "mkdir " + p
			if nm, ok := evName(p); ok {
				want = append(want, "CREATE "+nm)
				createdWhileWatched[nm]++
			}
		case op <= 9:
			if !exists {
				continue
			}
			d2x := dirs[rng.Intn(3)]
			qn := names[rng.Intn(len(names))]
			q := filepath.Join(d2x, qn)
			if q == p || (o.Burst > 1 && dirName(qn) != dirName(n)) {
				continue
			}
			qfi, qerr := os.Lstat(q)
			if qerr == nil && (qfi.IsDir() != fi.IsDir()) {
				continue
			}
			if qerr == nil && qfi.IsDir() {
				if ents, _ := os.ReadDir(q); len(ents) > 0 {
					continue
				}
			}
			if fi.IsDir() {
				if ents, _ := os.ReadDir(p); len(ents) > 0 {
					continue // moving populated directories: per-entry watches follow the vnode; not modelled
				}
			}
			if kdrv.Rename(p, q) != nil {
				continue
			}
			if isFifo(fi) {
				everFifo[q] = true
			}
			desc = "rename " + p + " -> " + q
			if nm, ok := evName(p); ok && !isFifo(fi) {
				want = append(want, "RENAME "+nm)
			}
			fileEv(p, "RENAME")
			if qerr == nil {
				fileEv(q, "REMOVE")
			}
			if nm, ok := evName(q); ok {
				if qerr == nil && !isFifo(qfi) {
					want = append(want, "REMOVE "+nm)
				}
				want = append(want, "CREATE "+nm)
				createdWhileWatched[nm]++
			}
		case op == 10:
			if !o.Fifos || exists || o.Burst > 1 {
				// not in bursts: a name that turns from a directory into a named pipe between the
				// backend's Info() and its ReadDir() makes ReadDir's open(2) block for ever (the
				// reader goroutine is lost); a real but schedule-only hazard outside C18's statement
				continue
			}
			if kdrv.Mkfifo(p) != nil {
				continue
			}
			everFifo[p] = true
			desc = "mkfifo " + p
			if nm, ok := evName(p); ok {
				want = append(want, "CREATE "+nm)
				createdWhileWatched[nm]++
			}
		case op == 11: // Remove / re-Add a user watch
			if o.Burst > 1 {
				continue // burst histories keep the watch set fixed: the reader only races the driver's filesystem operations
			}
			wd := dirs[rng.Intn(2)]
			if pre, ok := watched[wd]; ok && pre == ld1 && rng.Intn(3) == 0 && !k2Done {
				// K2 probe: Remove of the TARGET of a directory that was added through a symlink.
				// WatchList shows only the link, so this path is not listed: the call has to fail
				// with ErrNonExistentWatch and change nothing.
				err := w.Remove(wd)
				rep.Removes++
				desc = fmt.Sprintf("Remove(%q)=%v", strings.TrimPrefix(wd, tmp), err)
				if !errors.Is(err, fsnotify.ErrNonExistentWatch) {
					k2Done = true
					report("K2-remove-target-of-symlinked-dir-watch", fmt.Sprintf("Remove(%q) — the target of the listed symlink %q, itself not listed — returned %v instead of ErrNonExistentWatch", wd, pre, err))
				}
			} else if pre, ok := watched[wd]; ok {
				sp := pre
				if rng.Intn(4) == 0 {
					sp += "/"
				}
				err := w.Remove(sp)
				rep.Removes++
				desc = fmt.Sprintf("Remove(%q)=%v", strings.TrimPrefix(sp, tmp), err)
				unstableDir[pre] = true
				if err != nil {
					kind := "remove-of-listed-path-failed"
					if pre == ld1 && errors.Is(err, fsnotify.ErrNonExistentWatch) {
						kind = "K1-remove-symlinked-watch"
					}
					report(kind, fmt.Sprintf("Remove(%q) of a listed path = %v", sp, err))
				} else {
					delete(watched, wd)
					delete(user, pre)
				}
			} else {
				if _, e := os.Stat(wd); e != nil {
					continue
				}
				doAdd(wd, spellOf(wd))
				desc = "re-add " + wd
				unstableDir[watched[wd]] = true
				ents, _ := os.ReadDir(wd)
				for _, e := range ents {
					preexisting[watched[wd]+"/"+e.Name()] = true
				}
			}
		case op == 12: // remove a watched directory with everything in it
			if !W || d == u || rng.Intn(3) > 0 {
				continue
			}
			if o.Burst > 1 {
				continue
			}
			pre := watched[d]
			ents, _ := os.ReadDir(d)
			sub := false
			for _, e := range ents {
				if e.IsDir() {
					if se, _ := os.ReadDir(filepath.Join(d, e.Name())); len(se) > 0 {
						sub = true
					}
				}
			}
			if sub {
				continue
			}
			for _, e := range ents {
				efi, _ := os.Lstat(filepath.Join(d, e.Name()))
				unw := unwatchable(filepath.Join(d, e.Name()), efi)
				if kdrv.Remove(filepath.Join(d, e.Name())) == nil && !unw {
					want = append(want, "REMOVE "+pre+"/"+e.Name())
				}
			}
			if kdrv.Remove(d) != nil {
				continue
			}
			want = append(want, "REMOVE "+pre)
			desc = "rm-r " + d
			delete(watched, d)
			delete(user, pre)
			if pre == ld1 {
				ld1Gone = true
			}
			// the directory may come back later
			kdrv.Mkdir(d)
		case op == 13:
			if !o.EntrySymlinks || exists {
				continue
			}
			// a symlink inside a watched directory, to a file elsewhere
			if kdrv.Symlink(filepath.Join(u, "a"), p) != nil {
				continue
			}
			desc = "symlink " + p
			if nm, ok := evName(p); ok {
				want = append(want, "CREATE "+nm)
				createdWhileWatched[nm]++
			}
		}
		if desc == "" {
			continue
		}
		rep.Steps++
		rep.OpKinds[strings.Fields(desc)[0]]++
		if os.Getenv("VGEN_DEBUG") != "" {
			fmt.Fprintf(os.Stderr, "STEP %d %s\n", s, strings.ReplaceAll(desc, tmp, ""))
		}
		if o.Burst > 1 {
			for _, e := range want[wantMark:] {
				f := strings.SplitN(e, " ", 2)
				if f[0] == "CREATE" || f[0] == "REMOVE" || f[0] == "RENAME" {
					winTouch[f[1]]++
				}
				if f[0] == "CREATE" {
					winCreated[f[1]]++
				}
			}
			// FIFO removals/renames are invisible to the model's want list but do touch the name
			if touchedFifo != "" {
				winTouch[touchedFifo] += 2
			}
		}
		log = append(log, strings.ReplaceAll(desc, tmp, ""))
		if o.Burst > 1 && (s+1)%o.Burst != 0 {
			continue
		}
		if !flush(s, desc) {
			return
		}
	}
	if alive && len(rep.Findings) == 0 {
		flush(o.Steps, "end")
	}
	owner = "C18"
	if o.Burst > 1 && len(rep.Findings) == 0 {
		// Judged: (1) a name that existed when its directory was added and was never created,
		// removed or renamed afterwards must get no Create; (2) a name created exactly once and
		// never touched otherwise, which still exists, must get exactly one; in directories whose
		// watch was stable over the whole history. With several changes to one name between two
		// reads the coalescing order of the (simulated) kernel decides what a directory diff can
		// see, so such names are counted and not judged.
		for nm, k := range burstCreates {
			pre := filepath.Dir(nm)
			switch {
			case nm == "." || !strings.HasPrefix(nm, "/"):
				report("K8-stale-kevent-bogus-create", fmt.Sprintf("burst: Create for %q, which is not a path inside any watched directory (a kevent for an already removed watch was translated with an empty name)", nm))
			case isFifoName(nm) && k > winCreated[nm]:
				report("K4-fifo-reannounced", fmt.Sprintf("burst: %d Create events for the named pipe %s, created %d times", k, nm, winCreated[nm]))
			case nm == lf && linkTargetGone:
				report("K3-link-watch-target-deleted", fmt.Sprintf("burst: bogus Create for %s after its target went away", nm))
			case unstableDir[pre]:
				rep.OpKinds["burst-names-in-unstable-directories-not-judged"]++
			case winTouch[nm] == 0 && preexisting[nm]:
				report("create-for-preexisting-entry", fmt.Sprintf("burst: %d Create events for %s, which existed when its directory was added and was never created, removed or renamed since", k, nm))
			case winTouch[nm] == 1 && winCreated[nm] == 1 && k > 1:
				report("duplicate-create", fmt.Sprintf("burst: %d Create events for %s, whose only change in the whole history was one creation; errors seen %v; all events %v; full log %v", k, nm, burstErrs, trimAll(burstAll, tmp), log))
			default:
				rep.OpKinds["burst-names-touched-more-than-once-not-judged"]++
			}
		}
		for nm, k := range winCreated {
			pre := filepath.Dir(nm)
			if linkTargetGone {
				break // K3 happened in this history: the backend's bookkeeping is off from then on
			}
			if k == 1 && winTouch[nm] == 1 && !unstableDir[pre] && burstCreates[nm] == 0 {
				if _, ok := watched[realDirOf(watched, pre)]; ok {
					report("missing-create", fmt.Sprintf("burst: %s was created (its only change in the whole history, its directory watched throughout) and no Create was reported; errors seen %v; all events %v; full log %v; knotes %v ledger %v tables %+v", nm, burstErrs, trimAll(burstAll, tmp), log, unix.Knotes(fsnotify.VerifKqFd(w)), unix.Ledger(), fsnotify.VerifKq(w)))
				}
			}
		}
	}
	owner = "C17"
	if o.CloseEarly || len(rep.Findings) > 0 {
		closed = true
		closeAndCheck(w, col, &rep, report, "Close with watches present")
		return
	}
	// remove every user watch: nothing may be left
	var ul []string
	for p := range user {
		ul = append(ul, p)
	}
	sort.Strings(ul)
	for _, p := range ul {
		if err := w.Remove(p); err != nil {
			kind := "remove-of-listed-path-failed"
			if (p == ld1 || p == lf) && errors.Is(err, fsnotify.ErrNonExistentWatch) {
				kind = "K1-remove-symlinked-watch"
			}
			report(kind, fmt.Sprintf("final Remove(%q) = %v", p, err))
		}
		log = append(log, "Remove("+strings.TrimPrefix(p, tmp)+")")
	}
	if quiesce() {
		st := fsnotify.VerifKq(w)
		nv := len(vnodeFds(unix.Ledger()))
		if nv > 0 || len(st.Wd) > 0 || len(st.Path) > 0 || st.ByDir > 0 || st.ByDirKeys > 0 || len(st.Seen) > 0 || len(st.ByUser) > 0 {
			kind := "not-empty-after-remove-all"
			if nv == 0 && len(st.Wd) == 0 && len(st.Path) == 0 && st.ByDir == 0 && st.ByDirKeys == 0 && len(st.ByUser) == 0 {
				kind = "seen-set-not-empty-after-remove-all"
				// The seen set is only cleaned for entries that are watched; a name the backend
				// could not open (named pipe, dangling symlink) — recorded under its own name or,
				// for pipes, under the empty name — stays there for ever.
				resid := true
				for _, p := range st.Seen {
					if p != "" && !everUnwatchable[p] {
						resid = false
					}
				}
				if resid {
					kind = "K4-unwatched-entry-stays-in-seen-set"
				}
			}
			for _, f := range rep.Findings {
				if f.Kind == "K1-remove-symlinked-watch" {
					kind = "K1-remove-symlinked-watch" // consequence of the failed Remove above: the symlinked watch and its entries stay
				}
			}
			// K3's residue: the watch added through a symlink whose target went away was never
			// cleaned up (the model dropped it, so it was not removed above); only that link is left
			if (linkTargetGone || ld1Gone) && len(st.ByUser) > 0 {
				only := true
				for _, u := range st.ByUser {
					if !((u == lf && linkTargetGone) || (u == ld1 && ld1Gone)) {
						only = false
					}
				}
				if only {
					kind = "K3-link-watch-target-deleted"
				}
			}
			report(kind, fmt.Sprintf("after removing every user watch: %d descriptors open, tables wd=%d path=%d byDir=%d (index keys %d) seen=%d %q byUser=%q", nv, len(st.Wd), len(st.Path), st.ByDir, st.ByDirKeys, len(st.Seen), trimAll(st.Seen, tmp), trimAll(st.ByUser, tmp)))
		}
	}
	closed = true
	closeAndCheck(w, col, &rep, report, "Close after removing everything")
	return
}

func closeAndCheck(w *fsnotify.Watcher, col *collector, rep *kqReport, report func(string, string), when string) {
	w.Close()
	select {
	case <-col.done:
	case <-time.After(20 * time.Second):
		report("channels-not-closed", when+": Events/Errors not closed 20 s after Close")
		return
	}
	// The reader closes kq and the read end of the pipe AFTER closing the channels. Wait for
	// that (it is the reader's exit, not a leak): force-closing those numbers here would let the
	// late reader close descriptors of the NEXT history that re-use the numbers.
	var led map[int]string
	readerDone := false
	for i := 0; i < 400000 && !readerDone; i++ {
		led = unix.Ledger()
		readerDone = true
		for _, what := range led {
			if what == "kqueue" || what == "pipe-r" {
				readerDone = false
			}
		}
		if !readerDone {
			time.Sleep(50 * time.Microsecond)
		}
	}
	if !readerDone {
		report("no-quiescence", when+": the reader goroutine did not release kq and the pipe within 20 s of closing the channels")
		return
	}
	led = unix.Ledger()
	if len(led) > 0 {
		var l []string
		for fd, what := range led {
			l = append(l, fmt.Sprintf("%d:%s", fd, what))
		}
		sort.Strings(l)
		report("descriptors-open-after-close", fmt.Sprintf("%s: %d descriptors still open: %v", when, len(led), l))
		for fd := range led {
			unix.Close(fd)
		}
	}
	if err := w.Add("/"); !errors.Is(err, fsnotify.ErrClosed) {
		report("add-after-close", fmt.Sprintf("Add after Close = %v", err))
	}
	if w.WatchList() != nil {
		report("watchlist-after-close", "WatchList after Close is not nil")
	}
}

func imax(a, b int) int {
	if a > b {
		return a
	}
	return b
}

func kqStats(c *core.Ctx, rep *kqReport) {
	c.Count("events_compared", int64(rep.Events))
	c.Count("steps", int64(rep.Steps))
	c.Count("adds", int64(rep.Adds))
	c.Count("removes", int64(rep.Removes))
	c.Max("max_vnode_descriptors_open", int64(rep.MaxFds))
	for k, v := range rep.OpKinds {
		c.Hist("op_kinds", k, int64(v))
	}
	for k, v := range rep.Fflags {
		c.Hist("registered_fflags_by_knote_class", k, int64(v))
	}
}

func realDirOf(watched map[string]string, pre string) string {
	for d, p := range watched {
		if p == pre {
			return d
		}
	}
	return ""
}
