package gchecks

import (
	"fmt"
	"math/rand"
	"os"
	"path/filepath"
	"sort"
	"strings"
	"time"

	"kqsim/kdrv"
	fsnotify "kqsim/kqfsnotify"
	unix "kqsim/simunix"
)

// kqUserInside: directed C17/C18 histories in which the user watches a directory AND entries of it by their
// own paths (in either order), then removes the directory's watch. The entry watches the user asked for must
// survive that (still listed, descriptor still open, still reporting), everything internal must go, and after
// removing the rest nothing may be left: no descriptor and no table entry, including the per-directory index.
func kqUserInside(rng *rand.Rand) (rep kqReport) {
	rep.OpKinds = map[string]int{}
	rep.Fflags = map[string]int{}
	tmp, err := os.MkdirTemp("", "kqu")
	if err != nil {
		rep.Findings = append(rep.Findings, finding{"", "harness", err.Error(), nil})
		return
	}
	defer os.RemoveAll(tmp)
	if r, e := filepath.EvalSymlinks(tmp); e == nil {
		tmp = r
	}
	D := filepath.Join(tmp, "D")
	os.Mkdir(D, 0o755)
	nf := 2 + rng.Intn(3)
	var files []string
	for i := 0; i < nf; i++ {
		p := filepath.Join(D, fmt.Sprint("f", i))
		os.WriteFile(p, []byte("x"), 0o644)
		files = append(files, p)
	}
	S := filepath.Join(D, "S")
	withS := rng.Intn(2) == 0
	nS := 0
	if withS {
		os.Mkdir(S, 0o755)
		nS = rng.Intn(3)
		for i := 0; i < nS; i++ {
			os.WriteFile(filepath.Join(S, fmt.Sprint("s", i)), []byte("x"), 0o644)
		}
	}
	w, err := fsnotify.NewWatcher()
	if err != nil {
		rep.Findings = append(rep.Findings, finding{"", "harness", "NewWatcher: " + err.Error(), nil})
		return
	}
	col := newCollector(w)
	var log []string
	owner := "C17"
	report := func(kind, detail string) {
		if len(rep.Findings) < 8 {
			rep.Findings = append(rep.Findings, finding{owner, kind, strings.ReplaceAll(detail, tmp, ""), append([]string{}, log...)})
		}
	}
	closed := false
	defer func() {
		if !closed {
			closeAndCheck(w, col, &rep, func(string, string) {}, "early exit")
		}
	}()
	step := func(desc string) bool {
		log = append(log, strings.ReplaceAll(desc, tmp, ""))
		rep.Steps++
		rep.OpKinds[strings.Fields(desc)[0]]++
		if !col.quiesce() {
			report("no-quiescence", "reader never parked in Kevent with an empty queue")
			return false
		}
		return true
	}
	expectList := func(want []string) {
		l := w.WatchList()
		sort.Strings(l)
		sort.Strings(want)
		if strings.Join(l, "\x00") != strings.Join(want, "\x00") {
			owner = "C17"
			report("watchlist-mismatch", fmt.Sprintf("WatchList=%q, the user's paths are %q", trimAll(l, tmp), trimAll(want, tmp)))
		}
	}
	expectFds := func(n int, when string) {
		led := vnodeFds(unix.Ledger())
		if len(led) != n {
			owner = "C17"
			st := fsnotify.VerifKq(w)
			report("descriptor-count", fmt.Sprintf("%s: %d vnode descriptors open, %d expected; ledger %v; tables wd=%d path=%d byUser=%q", when, len(led), n, led, len(st.Wd), len(st.Path), trimAll(st.ByUser, tmp)))
		}
	}
	expectEvents := func(want []string, when string) {
		got, errs := col.take()
		rep.Events += len(got)
		sort.Strings(got)
		sort.Strings(want)
		if strings.Join(got, "\x00") != strings.Join(want, "\x00") || len(errs) > 0 {
			owner = "C18"
			report("event-mismatch:user-inside", fmt.Sprintf("%s: events %q errors %v, expected %q", when, trimAll(got, tmp), errs, trimAll(want, tmp)))
		}
	}
	// which entries the user watches by their own path
	nu := 1 + rng.Intn(nf-1)
	userFiles := append([]string{}, files[:nu]...)
	userS := withS && rng.Intn(2) == 0
	dirFirst := rng.Intn(2) == 0
	add := func(p string) bool {
		sp := p
		if rng.Intn(4) == 0 {
			sp = filepath.Dir(p) + "/./" + filepath.Base(p)
		}
		err := w.Add(sp)
		rep.Adds++
		if err != nil {
			report("add-failed", fmt.Sprintf("Add(%q) of an existing path failed: %v", sp, err))
			return false
		}
		return step("Add " + sp)
	}
	if dirFirst && !add(D) {
		return
	}
	for _, f := range userFiles {
		if !add(f) {
			return
		}
	}
	if userS && !add(S) {
		return
	}
	if !dirFirst && !add(D) {
		return
	}
	user := append([]string{D}, userFiles...)
	if userS {
		user = append(user, S)
	}
	expectList(user)
	all := 1 + nf // D + every file
	if withS {
		all++
		if userS {
			all += nS
		}
	}
	expectFds(all, "everything added")
	expectEvents(nil, "after the Adds")
	// events while everything is watched: one per change, whoever asked for the watch
	touch := func(p string) {
		if f, err := kdrv.OpenFile(p, os.O_WRONLY|os.O_APPEND, 0); err == nil {
			kdrv.Write(f, "y")
			f.Close()
		}
	}
	touch(files[0])
	kdrv.Chmod(files[nf-1], 0o600)
	if !step("write " + files[0] + " chmod " + files[nf-1]) {
		return
	}
	expectEvents([]string{"WRITE " + files[0], "CHMOD " + files[nf-1]}, "entries watched by the user and internally")
	// Remove(D): the user's entry watches stay
	if err := w.Remove(D); err != nil {
		owner = "C17"
		report("remove-of-listed-path-failed", fmt.Sprintf("Remove(%q) = %v", D, err))
		return
	}
	rep.Removes++
	if !step("Remove " + D) {
		return
	}
	rest := append([]string{}, userFiles...)
	if userS {
		rest = append(rest, S)
	}
	expectList(rest)
	left := nu
	if userS {
		left += 1 + nS
	}
	expectFds(left, "after Remove of the directory (the user's own watches on "+fmt.Sprint(len(rest))+" of its entries remain)")
	touch(files[0])       // still watched by the user
	touch(files[nf-1])    // was internal only: silent now
	nw := filepath.Join(D, "new")
	if f, err := kdrv.OpenFile(nw, os.O_CREATE|os.O_WRONLY, 0o644); err == nil { // D is not watched any more: silent
		f.Close()
	}
	if !step("write " + files[0] + " write " + files[nf-1] + " create " + nw) {
		return
	}
	expectEvents([]string{"WRITE " + files[0]}, "after Remove of the directory")
	for _, p := range rest {
		if err := w.Remove(p); err != nil {
			owner = "C17"
			report("remove-of-listed-path-failed", fmt.Sprintf("Remove(%q) = %v", p, err))
			return
		}
		rep.Removes++
	}
	if !step("Remove the rest") {
		return
	}
	expectList(nil)
	st := fsnotify.VerifKq(w)
	if nv := len(vnodeFds(unix.Ledger())); nv > 0 || len(st.Wd)+len(st.Path)+st.ByDir+st.ByDirKeys+len(st.Seen)+len(st.ByUser) > 0 {
		owner = "C17"
		report("state-left-after-removing-everything", fmt.Sprintf("after removing every user watch: %d descriptors open, tables wd=%d path=%d byDir=%d (index keys %d) seen=%d byUser=%q", nv, len(st.Wd), len(st.Path), st.ByDir, st.ByDirKeys, len(st.Seen), trimAll(st.ByUser, tmp)))
	}
	closed = true
	closeAndCheck(w, col, &rep, report, "Close after removing everything")
	_ = time.Now
	return
}
