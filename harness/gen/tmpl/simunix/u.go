// Package unix is a simulated kqueue + descriptor ledger for running
// backend_kqueue.go on Linux. Filesystem operations are real; vnode notes are
// posted by the driver (see Post).
package unix

import (
	"sync"
	"syscall"
)

const (
	EVFILT_READ  = -1
	EVFILT_VNODE = -4
	EV_ADD       = 0x1
	EV_DELETE    = 0x2
	EV_ENABLE    = 0x4
	EV_ONESHOT   = 0x10
	EV_CLEAR     = 0x20
	EV_EOF       = 0x8000

	NOTE_DELETE = 0x1
	NOTE_WRITE  = 0x2
	NOTE_EXTEND = 0x4
	NOTE_ATTRIB = 0x8
	NOTE_LINK   = 0x10
	NOTE_RENAME = 0x20
	NOTE_REVOKE = 0x40

	O_NONBLOCK = syscall.O_NONBLOCK
	O_RDONLY   = syscall.O_RDONLY
	O_CLOEXEC  = syscall.O_CLOEXEC
	EINTR      = syscall.EINTR
	EACCES     = syscall.EACCES
	EPERM      = syscall.EPERM
	ELOOP      = syscall.ELOOP
)

type Kevent_t struct {
	Ident  uint64
	Filter int16
	Flags  uint16
	Fflags uint32
	Data   int64
	Udata  *byte
}
type Timespec struct{ Sec, Nsec int64 }

func SetKevent(k *Kevent_t, fd, mode, flags int) {
	k.Ident = uint64(fd)
	k.Filter = int16(mode)
	k.Flags = uint16(flags)
}

type Vnode struct{ Dev, Ino uint64 }
type knote struct {
	kq     *kq
	fd     int
	fflags uint32
}
type kq struct {
	id      int
	pending map[int]uint32
	order   []int
	readers map[int]bool
	eof     map[int]bool
	waiters int
	cond    *sync.Cond
}

var (
	mu     sync.Mutex
	kqs    = map[int]*kq{}
	fdVn   = map[int]Vnode{}
	knotes = map[Vnode][]*knote{}
	pipes  = map[int]int{}
	ledger = map[int]string{}
	nextKq = 1 << 20
	// statistics
	Opened, Closed int
)

func Kqueue() (int, error) {
	mu.Lock()
	defer mu.Unlock()
	nextKq++
	k := &kq{id: nextKq, pending: map[int]uint32{}, readers: map[int]bool{}, eof: map[int]bool{}}
	k.cond = sync.NewCond(&mu)
	kqs[k.id] = k
	ledger[k.id] = "kqueue"
	return k.id, nil
}

func Kevent(kqfd int, ch, ev []Kevent_t, t *Timespec) (int, error) {
	mu.Lock()
	defer mu.Unlock()
	k := kqs[kqfd]
	if k == nil {
		return -1, syscall.EBADF
	}
	for _, c := range ch {
		fd := int(c.Ident)
		switch c.Filter {
		case EVFILT_READ:
			k.readers[fd] = true
		case EVFILT_VNODE:
			vn, ok := fdVn[fd]
			if !ok {
				return -1, syscall.EBADF
			}
			if c.Flags&EV_DELETE != 0 {
				if !dropKnote(k, fd, vn) {
					return -1, syscall.ENOENT
				}
			} else if c.Flags&EV_ADD != 0 {
				found := false
				for _, kn := range knotes[vn] {
					if kn.kq == k && kn.fd == fd {
						kn.fflags = c.Fflags
						found = true
					}
				}
				if !found {
					knotes[vn] = append(knotes[vn], &knote{k, fd, c.Fflags})
				}
			}
		}
	}
	if len(ev) == 0 {
		return 0, nil
	}
	for len(k.order) == 0 {
		k.waiters++
		k.cond.Wait()
		k.waiters--
		if kqs[kqfd] == nil {
			return -1, syscall.EBADF
		}
	}
	n := 0
	for n < len(ev) && len(k.order) > 0 {
		fd := k.order[0]
		k.order = k.order[1:]
		if k.eof[fd] {
			ev[n] = Kevent_t{Ident: uint64(fd), Filter: EVFILT_READ, Flags: EV_EOF}
			delete(k.eof, fd)
		} else {
			ev[n] = Kevent_t{Ident: uint64(fd), Filter: EVFILT_VNODE, Flags: EV_ADD | EV_CLEAR, Fflags: k.pending[fd]}
			delete(k.pending, fd)
		}
		n++
	}
	return n, nil
}

func dropKnote(k *kq, fd int, vn Vnode) bool {
	found := false
	l := knotes[vn][:0]
	for _, kn := range knotes[vn] {
		if kn.fd == fd && (k == nil || kn.kq == k) {
			found = true
			delete(kn.kq.pending, fd)
			o := kn.kq.order[:0]
			for _, x := range kn.kq.order {
				if x != fd {
					o = append(o, x)
				}
			}
			kn.kq.order = o
			continue
		}
		l = append(l, kn)
	}
	if len(l) == 0 {
		delete(knotes, vn)
	} else {
		knotes[vn] = l
	}
	return found
}

func Pipe(p []int) error {
	err := syscall.Pipe(p)
	if err == nil {
		mu.Lock()
		pipes[p[1]] = p[0]
		ledger[p[0]], ledger[p[1]] = "pipe-r", "pipe-w"
		mu.Unlock()
	}
	return err
}

func Close(fd int) error {
	mu.Lock()
	defer mu.Unlock()
	if _, ok := ledger[fd]; !ok {
		return syscall.EBADF
	}
	delete(ledger, fd)
	Closed++
	if k, ok := kqs[fd]; ok {
		delete(kqs, fd)
		k.cond.Broadcast()
		return nil
	}
	if r, ok := pipes[fd]; ok {
		delete(pipes, fd)
		for _, k := range kqs {
			if k.readers[r] {
				k.eof[r] = true
				k.order = append(k.order, r)
				k.cond.Broadcast()
			}
		}
	}
	if vn, ok := fdVn[fd]; ok {
		dropKnote(nil, fd, vn)
		delete(fdVn, fd)
	}
	return syscall.Close(fd)
}

func CloseOnExec(fd int) { syscall.CloseOnExec(fd) }

func Open(path string, mode int, perm uint32) (int, error) {
	fd, err := syscall.Open(path, mode, perm)
	if err != nil {
		return fd, err
	}
	var st syscall.Stat_t
	syscall.Fstat(fd, &st)
	mu.Lock()
	fdVn[fd] = Vnode{uint64(st.Dev), st.Ino}
	ledger[fd] = path
	Opened++
	mu.Unlock()
	return fd, nil
}

// ---- driver / monitor side ----

// VN is one (vnode, note) pair of an operation.
type VN struct {
	V    Vnode
	Note uint32
}

// PostAll raises the notes of ONE filesystem operation atomically (the kernel's
// vop_*_post hook runs to completion before user space can register new knotes).
func PostAll(l ...VN) {
	mu.Lock()
	defer mu.Unlock()
	for _, x := range l {
		post(x.V, x.Note)
	}
}

// Do runs one filesystem operation f together with its note posting as ONE step
// of the simulated kernel: the backend's Open/Close/Kevent calls wait until it
// is finished, as they would for a syscall that holds the vnode locks while the
// vop_*_post hook runs. f receives the posting function.
func Do(f func(post func(Vnode, uint32))) {
	mu.Lock()
	defer mu.Unlock()
	f(post)
}

// Post raises note on every knote attached to vn whose registration asked for it.
func Post(vn Vnode, note uint32) {
	mu.Lock()
	defer mu.Unlock()
	post(vn, note)
}

func post(vn Vnode, note uint32) {
	for _, kn := range knotes[vn] {
		n := note & kn.fflags
		if n == 0 {
			continue
		}
		if _, ok := kn.kq.pending[kn.fd]; !ok {
			kn.kq.order = append(kn.kq.order, kn.fd)
		}
		kn.kq.pending[kn.fd] |= n
		kn.kq.cond.Broadcast()
	}
}

// Quiescent reports whether the reader of kq is parked in Kevent with nothing pending.
func Quiescent(kqfd int) bool {
	mu.Lock()
	defer mu.Unlock()
	k := kqs[kqfd]
	if k == nil {
		return true
	}
	return k.waiters > 0 && len(k.order) == 0
}

func Ledger() map[int]string {
	mu.Lock()
	defer mu.Unlock()
	m := map[int]string{}
	for k, v := range ledger {
		m[k] = v
	}
	return m
}

// Knotes returns fd -> registered fflags for kq.
func Knotes(kqfd int) map[int]uint32 {
	mu.Lock()
	defer mu.Unlock()
	m := map[int]uint32{}
	for _, l := range knotes {
		for _, kn := range l {
			if kn.kq.id == kqfd {
				m[kn.fd] = kn.fflags
			}
		}
	}
	return m
}
