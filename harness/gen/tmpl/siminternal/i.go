package internal

import unix "kqsim/simunix"

func Debug(name string, kevent *unix.Kevent_t) {}
