// vgen: driver and child of the checks that run code copied/extracted from
// /repo's working tree at build time (kqueue backend on a simulated kqueue,
// Windows/FEN translation functions).
package main

import (
	"fmt"
	"os"

	"harness/core"
	_ "kqsim/gchecks"
)

func main() {
	if len(os.Args) < 2 {
		fmt.Fprintln(os.Stderr, "usage: vgen run <ID> <tier> [--replay f] | vgen child …")
		os.Exit(2)
	}
	switch os.Args[1] {
	case "child":
		os.Exit(core.ChildMain(os.Args[2:]))
	case "run":
		replay := ""
		for i := 4; i+1 < len(os.Args); i++ {
			if os.Args[i] == "--replay" {
				replay = os.Args[i+1]
			}
		}
		os.Exit(core.DriverMain(os.Args[2], os.Args[3], replay))
	}
	os.Exit(2)
}
