package checks

import (
	"errors"
	"fmt"
	"math/rand"
	"os"
	"path/filepath"
	"sort"
	"strings"
	"syscall"

	"github.com/fsnotify/fsnotify"

	"harness/core"
	"harness/twin"
)

func init() {
	core.Register(&core.Check{
		ID:    "C04",
		Level: "exploration",
		Rule: "Reference-model monitor on the public API: a sequential inode-identity model (inode -> first cleaned spelling; re-pointed listed path moves; watch ends when the inode is deleted or renamed) is run next to the real Watcher; " +
			"after EVERY step WatchList (as a multiset) and the result class (nil / ErrNonExistentWatch / some error) are compared, panics are caught, and each sequence ends by probing every listed path (one chmod => exactly one Chmod event under the listed spelling), removing everything listed and requiring zero kernel marks. " +
			"Quick: ALL sequences of length <=3 over a 24-letter alphabet (11 Adds incl. failing ones, 6 Removes, 7 filesystem steps) and over an 11-letter alphabet of special names: ending in '...' (missing, a file, a directory; an ordinary name while recursion is off) and containing a NUL byte (cannot exist); thorough adds all sequences of length <=4 over 14 letters and of length <=3 over 45 letters; " +
			"plus the same re-pointing templates with the READER HELD BACK (no barrier between the filesystem step and the re-Add), strace-injected ENOSPC on inotify_add_watch (a failed Add must change nothing), " +
			"plus PRNG sequences of length <=30 and the re-pointing templates (retarget / replace-by-rename / recreate-while-linked then re-Add). Plus the replace race (4 Watchers in parallel, hundreds of iterations each: delete or rename away the watched file, create a new one under the name, Add it again while an Add spammer and WatchList pollers contend for the lock and the reader works through the old file's notifications; after a sentinel barrier the file must be listed, backed by exactly one kernel mark and report one Chmod). distinct_nontrivial = distinct sequences containing >=1 successful Add and >=2 different op kinds",
		Assumptions: []string{"stat(2) identifies the file a path names; a watched inode is 'deleted' when its last link goes while no descriptor is open (the driver holds none here)", "every filesystem step is followed by a sentinel barrier (strict schedule)"},
		Batches:     func(t string) int { return map[string]int{"quick": 16, "thorough": 64}[t] },
		MustObserve: []string{"sequences", "steps_compared", "probe_events_checked", "repointed_adds", "replace_race_iterations"},
		Exhaustive:  true,
		Run:         runC04,
	})
}

type c4op struct {
	Kind string `json:"kind"` // add rm fs
	Arg  string `json:"arg"`
}

func (o c4op) String() string {
	a := strings.ReplaceAll(o.Arg, "\x00", `\x00`)
	if len(a) > 48 {
		a = a[:20] + "…" + a[len(a)-20:]
	}
	return o.Kind + " " + a
}

type c4ino struct{ dev, ino uint64 }

func c4resolve(p string) (c4ino, error) {
	var st syscall.Stat_t
	if err := syscall.Stat(p, &st); err != nil {
		return c4ino{}, err
	}
	return c4ino{uint64(st.Dev), st.Ino}, nil
}

type c4model struct {
	byIno     map[c4ino]string
	byPath    map[string]c4ino
	repointed int
}

func (m *c4model) add(p string) (expectErr bool) {
	c := filepath.Clean(p)
	i, err := c4resolve(c)
	if err != nil {
		return true
	}
	if old, listed := m.byPath[c]; listed && old != i {
		delete(m.byIno, old)
		delete(m.byPath, c)
		m.repointed++
	}
	if _, ok := m.byIno[i]; ok {
		return false
	}
	m.byIno[i] = c
	m.byPath[c] = i
	return false
}
func (m *c4model) remove(p string) (expectNonExistent bool) {
	c := filepath.Clean(p)
	i, ok := m.byPath[c]
	if !ok {
		return true
	}
	delete(m.byPath, c)
	delete(m.byIno, i)
	return false
}
func (m *c4model) list() []string {
	var l []string
	for p := range m.byPath {
		l = append(l, p)
	}
	sort.Strings(l)
	return l
}
func (m *c4model) gone(i c4ino) {
	if p, ok := m.byIno[i]; ok {
		delete(m.byIno, i)
		delete(m.byPath, p)
	}
}

var c4long = strings.Repeat("n", 256)
var c4huge = strings.Repeat("p/", 2500) + "x"

func c4alphabet(base string, size int) []c4op {
	abs := func(n string) string { return filepath.Join(base, n) }
	a := []c4op{
		{"add", "f"}, {"add", "./f"}, {"add", abs("f")}, {"add", "lf"}, {"add", "h"}, {"add", "d"}, {"add", "d/"}, {"add", "ld"},
		{"add", "m"}, {"add", "f/x"}, {"add", "loop"},
		{"rm", "f"}, {"rm", abs("f")}, {"rm", "lf"}, {"rm", "d"}, {"rm", "ld"}, {"rm", "h"},
		{"fs", "unlink f"}, {"fs", "mv f f2"}, {"fs", "mv g f"}, {"fs", "retarget lf g"}, {"fs", "recreate f"}, {"fs", "rmdir d"}, {"fs", "mv d d2"},
	}
	if size == 8 { // names whose last component is "..." (an ordinary name while recursion is off), and names with a NUL byte (no such file can exist)
		return []c4op{{"add", "d"}, {"add", "d/..."}, {"add", "..."}, {"add", "d3/..."}, {"add", "d/../..."},
			{"add", "d/a\x00b"}, {"add", "f\x00"},
			{"rm", "d/..."}, {"rm", "..."}, {"rm", "d"}, {"rm", "d/a\x00b"}}
	}
	if size <= 14 {
		return []c4op{{"add", "f"}, {"add", abs("f")}, {"add", "lf"}, {"add", "h"}, {"add", "g"}, {"add", "d"},
			{"rm", "f"}, {"rm", "lf"}, {"rm", "g"},
			{"fs", "unlink f"}, {"fs", "mv g f"}, {"fs", "retarget lf g"}, {"fs", "recreate f"}, {"fs", "mv f f2"}}
	}
	if size > 24 {
		a = append(a, []c4op{
			{"add", "d/../f"}, {"add", "/" + abs("f")}, {"add", "f/"}, {"add", abs("lf")}, {"add", "./ld/"}, {"add", "g"}, {"add", abs("d")}, {"add", "lr"},
			{"add", c4long}, {"add", c4huge}, {"add", "ld/../f"},
			{"rm", "./f"}, {"rm", "d/"}, {"rm", "m"}, {"rm", "g"}, {"rm", abs("d")}, {"rm", c4long}, {"rm", "lr"},
			{"fs", "unlink h"}, {"fs", "retarget lf d"}, {"fs", "retarget ld d3"},
		}...)
	}
	return a
}

func c4reset(base string) {
	os.Chdir("/")
	os.RemoveAll(base)
	os.Mkdir(base, 0o755)
	os.Chdir(base)
	os.WriteFile("f", nil, 0o644)
	os.WriteFile("g", nil, 0o644)
	os.Mkdir("d", 0o755)
	os.Mkdir("d3", 0o755)
	os.Symlink("f", "lf")
	os.Symlink("d", "ld")
	os.Symlink("./g", "lr")
	os.Link("f", "h")
	os.Symlink("loop", "loop")
	os.WriteFile("...", nil, 0o644)
	os.Mkdir("d3/...", 0o755)
}

// c4fs performs a filesystem step and tells the model which inodes lost their watch.
func c4fs(m *c4model, arg string) {
	f := strings.Fields(arg)
	nlink := func(p string) uint64 {
		var st syscall.Stat_t
		if syscall.Stat(p, &st) != nil {
			return 0
		}
		return uint64(st.Nlink)
	}
	switch f[0] {
	case "unlink":
		i, e := c4resolve(f[1])
		n := nlink(f[1])
		if os.Remove(f[1]) == nil && e == nil && n == 1 {
			m.gone(i)
		}
	case "rmdir":
		i, e := c4resolve(f[1])
		if syscall.Rmdir(f[1]) == nil && e == nil {
			m.gone(i)
		}
	case "mv":
		i, e := c4resolve(f[1])
		j, e2 := c4resolve(f[2])
		n := nlink(f[2])
		if os.Rename(f[1], f[2]) == nil {
			if e == nil && !(e2 == nil && j == i) {
				m.gone(i)
			}
			if e2 == nil && n == 1 && j != i {
				m.gone(j)
			}
		}
	case "retarget":
		os.Remove(f[1])
		os.Symlink(f[2], f[1])
	case "recreate":
		i, e := c4resolve(f[1])
		n := nlink(f[1])
		if os.Remove(f[1]) == nil && e == nil && n == 1 {
			m.gone(i)
		}
		os.WriteFile(f[1], nil, 0o644)
	}
}

type c4runner struct {
	c    *core.Ctx
	dir  string
	s    *twin.Session
	base string
	nseq int
}

func (r *c4runner) session() *twin.Session {
	if r.s == nil {
		r.nseq++
		s, err := twin.NewSession(filepath.Join(r.dir, fmt.Sprintf("w%d", r.nseq)), -1)
		if err != nil {
			r.c.Broken(err.Error())
			return nil
		}
		r.s = s
		r.base = s.Base
	}
	return r.s
}
func (r *c4runner) drop() {
	if r.s != nil {
		os.Chdir("/")
		r.s.Close()
		r.s = nil
	}
}

// run executes one sequence; returns false when the watcher must be re-created.
func (r *c4runner) run(seq []c4op, mkSeq func(base string) []c4op) {
	c := r.c
	s := r.session()
	if s == nil {
		return
	}
	c4reset(r.base)
	if mkSeq != nil {
		seq = mkSeq(r.base)
	}
	m := &c4model{byIno: map[c4ino]string{}, byPath: map[string]c4ino{}}
	viol := func(sig, text string) {
		c.Violate(sig, fmt.Sprintf("sequence %v: %s", seq, strings.ReplaceAll(text, r.base, "$B")), seq)
	}
	kinds := map[string]bool{}
	okAdd := false
	dirty := false
	for si, o := range seq {
		kinds[o.Kind] = true
		switch o.Kind {
		case "add":
			expErr := m.add(o.Arg)
			err, pan := twin.Protect(func() error { return s.W.Add(o.Arg) })
			if pan != "" {
				viol("panic-in-Add", fmt.Sprintf("step %d Add(%q) panicked: %s", si, o.Arg, pan))
				dirty = true
			} else if (err != nil) != expErr {
				viol("add-result", fmt.Sprintf("step %d Add(%.80q)=%v, model expects error=%v", si, o.Arg, err, expErr))
				dirty = true
			}
			if err == nil {
				okAdd = true
			}
		case "rm":
			expNE := m.remove(o.Arg)
			err, pan := twin.Protect(func() error { return s.W.Remove(o.Arg) })
			if pan != "" {
				viol("panic-in-Remove", fmt.Sprintf("step %d Remove(%q) panicked: %s", si, o.Arg, pan))
				dirty = true
			} else if expNE != errors.Is(err, fsnotify.ErrNonExistentWatch) || (!expNE && err != nil) {
				viol("remove-result", fmt.Sprintf("step %d Remove(%.80q)=%v, model expects ErrNonExistentWatch=%v", si, o.Arg, err, expNE))
				dirty = true
			}
		case "fs":
			c4fs(m, o.Arg)
			if ok, dump := s.Barrier(); !ok {
				c.Inconclusive("barrier watchdog: " + hangClass(dump))
				r.drop()
				return
			}
		}
		c.Res.Counters["steps_compared"]++
		l := s.WatchList()
		if strings.Join(l, "\x00") != strings.Join(m.list(), "\x00") {
			viol("watchlist", fmt.Sprintf("after step %d (%v): WatchList=%q, model=%q", si, o, l, m.list()))
			dirty = true
		}
		if dirty {
			break
		}
	}
	c.Res.Counters["repointed_adds"] += int64(m.repointed)
	if !dirty {
		// probe: every listed path has a live watch that names events with the listed spelling, once
		s.Take()
		exp := map[string]int{}
		for _, p := range m.list() {
			// only when the listed path still names the watched inode (a hard
			// link may keep a replaced file's watch alive under its old name)
			if i, err := c4resolve(p); err == nil && i == m.byPath[p] && os.Chmod(p, 0o755) == nil {
				exp[p]++
			}
		}
		if ok, dump := s.Barrier(); !ok {
			c.Inconclusive("barrier watchdog: " + hangClass(dump))
			r.drop()
			return
		}
		_, got, _ := s.Take()
		seen := map[string]int{}
		for _, e := range got {
			if e.Op&fsnotify.Chmod != 0 {
				seen[e.Name]++
			}
		}
		for p, n := range exp {
			c.Res.Counters["probe_events_checked"]++
			if seen[p] != n {
				viol("probe", fmt.Sprintf("chmod of listed path %q produced %d Chmod events named %q (want exactly 1); received %v", p, seen[p], p, got))
				dirty = true
			}
		}
		for nm, n := range seen {
			// a chmod of a directory entry is also reported by its watched parent as parent/<entry>
			if exp[nm] == 0 && !strings.Contains(strings.TrimPrefix(nm, r.base), "/") {
				viol("probe", fmt.Sprintf("%d Chmod events under unexpected name %q; listed %v", n, nm, m.list()))
				dirty = true
			}
		}
	}
	if !dirty {
		for _, p := range s.WatchList() {
			err, pan := twin.Protect(func() error { return s.W.Remove(p) })
			if pan != "" {
				viol("panic-in-Remove", fmt.Sprintf("final Remove(%q) panicked: %s", p, pan))
				dirty = true
			} else if err != nil {
				viol("final-remove", fmt.Sprintf("final Remove(%q) of a listed path = %v", p, err))
				dirty = true
			}
		}
		if ok, _ := s.Barrier(); ok {
			if marks, err := twin.KernelMarks(fsnotify.VerifInotifyFd(s.W)); err == nil && len(marks) != 1 {
				viol("marks-left", fmt.Sprintf("%d kernel marks left after removing everything listed", len(marks)-1))
				dirty = true
			}
		} else {
			dirty = true
		}
	}
	c.Res.Counters["sequences"]++
	c.Eval(1)
	if okAdd && len(kinds) >= 2 {
		c.Distinct(fmt.Sprint(seq))
	}
	if dirty {
		r.drop()
	}
}

func runC04(c *core.Ctx) {
	r := &c4runner{c: c, dir: c.Tmp}
	defer r.drop()
	type enum struct{ size, maxLen int }
	enums := []enum{{24, 3}, {8, 3}}
	if c.Thorough() {
		enums = []enum{{24, 3}, {8, 4}, {14, 4}, {45, 3}}
	}
	caseNo := 0
	for _, en := range enums {
		// alphabet needs the base path, which is per-session; build with a placeholder and substitute
		alpha := c4alphabet("$BASE", en.size)
		var seqs [][]c4op
		var gen func(cur []c4op)
		gen = func(cur []c4op) {
			if len(cur) > 0 {
				has := false
				for _, o := range cur {
					if o.Kind == "add" {
						has = true
					}
				}
				if has {
					seqs = append(seqs, append([]c4op{}, cur...))
				}
			}
			if len(cur) == en.maxLen {
				return
			}
			for _, o := range alpha {
				gen(append(cur, o))
			}
		}
		gen(nil)
		c.Max(fmt.Sprintf("sequences_in_exhaustive_domain_%dx%d", en.size, en.maxLen), int64(len(seqs)))
		for i, seq := range seqs {
			if i%c.NBatches != c.Batch {
				continue
			}
			caseNo++
			if _, ok := c.CaseRng(caseNo, "exhaustive"); !ok {
				continue
			}
			sq := seq
			r.run(nil, func(base string) []c4op {
				out := make([]c4op, len(sq))
				for k, o := range sq {
					out[k] = c4op{o.Kind, strings.ReplaceAll(o.Arg, "$BASE", base)}
				}
				return out
			})
			if caseNo == 7 {
				c.Sample(map[string]interface{}{"sequence": seq})
			}
		}
	}
	c04Lagging(c, r)
	if c.Batch < len(addFaultWhens) && c.Only < 0 {
		when := addFaultWhens[c.Batch]
		if _, ok := c.CaseRng(3000000, "injected inotify_add_watch ENOSPC when="+when); ok {
			if fr, inj, ok := runAddFault(c, when); ok {
				c.Res.Counters["add_fault_sessions"]++
				c.Res.Counters["add_watch_calls_made_to_fail"] += int64(inj)
				c.Eval(1)
				c.Distinct("addfault", when)
				if inj > 0 && len(fr.Failed) == 0 {
					c.Violate("failed-add-reported-as-success", fmt.Sprintf("%d inotify_add_watch calls failed with ENOSPC (injected, when=%s) and every Add returned nil", inj, when), fr)
				}
				for _, cm := range fr.Complaints {
					c.Violate("failed-add-changed-state", fmt.Sprintf("with inotify_add_watch failing (ENOSPC injected, when=%s): %s", when, cm), fr)
				}
				if c.Batch == 0 {
					c.Sample(map[string]interface{}{"injected_add_watch_failures": inj, "session": fr})
				}
			}
		}
	}
	os.Chdir("/")
	replaceRace(c, 5000000, "")
	// random long sequences and re-pointing templates
	n := c.Pick(60, 600)
	for i := 0; i < n; i++ {
		rng, ok := c.CaseRng(1000000+i, "random/template")
		if !ok {
			continue
		}
		r.run(nil, func(base string) []c4op { return c4random(rng, base) })
	}
}

func c4random(rng *rand.Rand, base string) []c4op {
	alpha := c4alphabet(base, 45)
	var seq []c4op
	if rng.Intn(2) == 0 { // template: make a path listed, re-point it, re-Add
		link := []string{"lf", "f", "lr"}[rng.Intn(3)]
		seq = append(seq, c4op{"add", link})
		if rng.Intn(2) == 0 {
			seq = append(seq, c4op{"add", []string{"g", "h", "d"}[rng.Intn(3)]})
		}
		switch link {
		case "lf":
			seq = append(seq, c4op{"fs", []string{"retarget lf g", "retarget lf d"}[rng.Intn(2)]})
		case "lr":
			seq = append(seq, c4op{"fs", "retarget lr f"})
		default:
			seq = append(seq, c4op{"fs", []string{"mv g f", "recreate f"}[rng.Intn(2)]})
		}
		seq = append(seq, c4op{"add", link})
	}
	for k := rng.Intn(28); k >= 0; k-- {
		seq = append(seq, alpha[rng.Intn(len(alpha))])
	}
	return seq
}

// c04Lagging: the re-pointing templates with the READER HELD BACK (consumer
// paused, no barrier between the filesystem step and the re-Add): Add of an
// existing path must still succeed, and once the stream is quiescent WatchList
// must equal the sequential model's and every listed path must have a live watch.
func c04Lagging(c *core.Ctx, r *c4runner) {
	n := c.Pick(12, 80)
	for i := 0; i < n; i++ {
		rng, ok := c.CaseRng(2000000+i, "lagging re-point template")
		if !ok {
			continue
		}
		s := r.session()
		if s == nil {
			return
		}
		c4reset(r.base)
		m := &c4model{byIno: map[c4ino]string{}, byPath: map[string]c4ino{}}
		var seq []c4op
		viol := func(sig, text string) {
			c.Violate(sig, fmt.Sprintf("lagging sequence %v: %s", seq, strings.ReplaceAll(text, r.base, "$B")), seq)
		}
		link := []string{"f", "lf", "lr", "d"}[rng.Intn(4)]
		step := map[string][]string{"f": {"recreate f", "mv g f", "unlink f"}, "lf": {"retarget lf g", "retarget lf d"}, "lr": {"retarget lr f"}, "d": {"rmdir d", "mv d d2"}}[link]
		fs := step[rng.Intn(len(step))]
		do := func(o c4op) bool {
			seq = append(seq, o)
			switch o.Kind {
			case "add":
				expErr := m.add(o.Arg)
				err, pan := twin.Protect(func() error { return s.W.Add(o.Arg) })
				if pan != "" {
					viol("panic-in-Add", pan)
					return false
				}
				if (err != nil) != expErr {
					viol("add-result", fmt.Sprintf("Add(%q)=%v with the reader lagging; the path %s", o.Arg, err, map[bool]string{true: "does not resolve", false: "exists and must be watchable"}[expErr]))
					return false
				}
			case "fs":
				c4fs(m, o.Arg)
				if strings.HasPrefix(o.Arg, "rmdir") || strings.HasPrefix(o.Arg, "mv d") {
					os.Mkdir("d", 0o755) // so that the re-Add has something to watch
				}
			}
			return true
		}
		good := do(c4op{"add", link})
		if rng.Intn(2) == 0 {
			good = good && do(c4op{"add", "h"})
		}
		if ok, _ := s.Barrier(); !ok {
			r.drop()
			continue
		}
		s.Pause(true)
		for k := rng.Intn(4); k > 0; k-- { // park the reader in a send
			os.Chmod(link, 0o600+os.FileMode(k))
		}
		good = good && do(c4op{"fs", fs})
		if fs == "unlink f" {
			os.WriteFile("f", nil, 0o644)
		}
		good = good && do(c4op{"add", link}) // no barrier: the old watch's notifications are still queued
		if !good {
			r.drop()
			continue
		}
		if ok, dump := s.Barrier(); !ok {
			c.Inconclusive("barrier watchdog: " + hangClass(dump))
			r.drop()
			continue
		}
		c.Res.Counters["lagging_sequences"]++
		c.Res.Counters["steps_compared"]++
		c.Eval(1)
		c.Distinct(fmt.Sprint("lag", seq))
		if l := s.WatchList(); strings.Join(l, "\x00") != strings.Join(m.list(), "\x00") {
			viol("watchlist", fmt.Sprintf("once quiescent: WatchList=%q, model=%q", l, m.list()))
			r.drop()
			continue
		}
		s.Take()
		exp := map[string]int{}
		for _, p := range m.list() {
			if i, err := c4resolve(p); err == nil && i == m.byPath[p] && os.Chmod(p, 0o711) == nil {
				exp[p]++
			}
		}
		if ok, _ := s.Barrier(); !ok {
			r.drop()
			continue
		}
		_, got, _ := s.Take()
		seen := map[string]int{}
		for _, e := range got {
			if e.Op&fsnotify.Chmod != 0 {
				seen[e.Name]++
			}
		}
		dirty := false
		for p, k := range exp {
			c.Res.Counters["probe_events_checked"]++
			if seen[p] != k {
				viol("probe", fmt.Sprintf("chmod of listed path %q produced %d Chmod events (want 1); received %v", p, seen[p], got))
				dirty = true
			}
		}
		for _, p := range s.WatchList() {
			if err, pan := twin.Protect(func() error { return s.W.Remove(p) }); err != nil || pan != "" {
				viol("final-remove", fmt.Sprintf("Remove(%q)=%v %s", p, err, pan))
				dirty = true
			}
		}
		if dirty {
			r.drop()
		}
	}
}
