package checks

import (
	"errors"
	"fmt"
	"math/rand"
	"os"
	"path/filepath"
	"runtime"
	"sync"
	"sync/atomic"
	"time"

	"github.com/fsnotify/fsnotify"
	"golang.org/x/sys/unix"

	"harness/core"
	"harness/twin"
)

// closeRace: Close racing the reader goroutine's bookkeeping for a renamed watched file, under lock contention.
// Per iteration: Watcher A watches k files; WatchList pollers contend for A's lock; one watched file is renamed
// (IN_MOVE_SELF: the reader will call inotify_rm_watch for it) and A is closed at once, while a second Watcher
// B is created and adds k+1 files (it tends to get A's descriptor number and the same watch descriptors).
// Oracles: (errors) nothing but the overflow error may arrive on A's Errors - a Watcher that is being closed has
// no failure to report; (neighbour) B keeps every kernel mark and reports a write to each of its files.
func closeRace(c *core.Ctx, caseNo int, judgeErrors, judgeNeighbour bool) {
	rng, ok := c.CaseRng(caseNo, "Close racing the reader's handling of a renamed watched file")
	if !ok {
		return
	}
	iters := c.Pick(300, 2500)
	if c.Race {
		iters = c.Pick(100, 600)
	}
	dir, done := caseDir(c, caseNo)
	defer done()
	fsnotify.VerifSetHooks(nil)
	var nErrIters, sameFd int64
	for it := 0; it < iters; it++ {
		base := filepath.Join(dir, fmt.Sprint("i", it%8))
		os.RemoveAll(base)
		os.MkdirAll(base, 0o755)
		A, err := fsnotify.NewBufferedWatcher(uint([]int{0, 1, 64}[rng.Intn(3)]))
		if err != nil {
			c.Broken(err.Error())
			return
		}
		k := 2 + rng.Intn(3)
		var af []string
		for i := 0; i < k; i++ {
			p := filepath.Join(base, fmt.Sprint("a", i))
			os.WriteFile(p, nil, 0o644)
			A.Add(p)
			af = append(af, p)
		}
		var errsA []string
		var emu sync.Mutex
		adone := make(chan struct{})
		go func() {
			defer close(adone)
			ev, er := A.Events, A.Errors
			for ev != nil || er != nil {
				select {
				case _, ok := <-ev:
					if !ok {
						ev = nil
					}
				case e, ok := <-er:
					if !ok {
						er = nil
					} else if !errors.Is(e, fsnotify.ErrEventOverflow) {
						emu.Lock()
						errsA = append(errsA, e.Error())
						emu.Unlock()
					}
				}
			}
		}()
		var stop int32
		var pw sync.WaitGroup
		for g := 0; g < 2; g++ {
			pw.Add(1)
			go func() {
				defer pw.Done()
				for atomic.LoadInt32(&stop) == 0 {
					A.WatchList()
				}
			}()
		}
		fdA := fsnotify.VerifInotifyFd(A)
		victim := rng.Intn(k)
		os.Rename(af[victim], af[victim]+".moved")
		for j := rng.Intn(30); j > 0; j-- {
			runtimeGosched()
		}
		cdone := make(chan struct{})
		go func() { A.Close(); close(cdone) }()
		B, berr := fsnotify.NewWatcher()
		if berr != nil {
			atomic.StoreInt32(&stop, 1)
			pw.Wait()
			<-cdone
			c.Broken(berr.Error())
			return
		}
		if fsnotify.VerifInotifyFd(B) == fdA {
			sameFd++
		}
		var bf []string
		for i := 0; i < k+1; i++ {
			p := filepath.Join(base, fmt.Sprint("b", i))
			os.WriteFile(p, nil, 0o644)
			B.Add(p)
			bf = append(bf, p)
		}
		select {
		case <-cdone:
		case <-time.After(twin.WatchdogTimeout):
			atomic.StoreInt32(&stop, 1)
			c.Inconclusive("close race: Close did not return: " + hangClass(core.AllStacks()))
			return
		}
		atomic.StoreInt32(&stop, 1)
		pw.Wait()
		<-adone
		c.Count("close_race_iterations", 1)
		emu.Lock()
		ea := append([]string{}, errsA...)
		emu.Unlock()
		if judgeErrors && len(ea) > 0 {
			nErrIters++
			c.Violate(errSig(ea[0]), fmt.Sprintf("iteration %d: a watched file was renamed and the Watcher closed at once (WatchList pollers contending for its lock): %q arrived on Errors", it, ea), nil)
			B.Close()
			return
		}
		if judgeNeighbour {
			marks, _ := twin.KernelMarks(fsnotify.VerifInotifyFd(B))
			got := map[string]bool{}
			bd := make(chan struct{})
			go func() {
				defer close(bd)
				for e := range B.Events {
					if e.Op&fsnotify.Write != 0 {
						got[e.Name] = true
					}
					if len(got) == len(bf) {
						return
					}
				}
			}()
			for _, p := range bf {
				if fd, err := unix.Open(p, unix.O_WRONLY|unix.O_APPEND, 0); err == nil {
					unix.Write(fd, []byte("x"))
					unix.Close(fd)
				}
			}
			complete := true
			select {
			case <-bd:
			case <-time.After(2 * time.Second):
				complete = false // decided below by the kernel marks, not by the clock
			}
			if len(marks) != len(bf) {
				c.Violate("other-watcher-lost-a-watch-when-one-was-closed", fmt.Sprintf("iteration %d: Watcher B (created while A was being closed; same descriptor number: %v) added %d files and has %d kernel marks; all writes reported: %v", it, fsnotify.VerifInotifyFd(B) == fdA, len(bf), len(marks), complete), nil)
				B.Close()
				return
			}
		}
		B.Close()
	}
	c.Count("close_race_second_watcher_got_the_same_descriptor_number", sameFd)
	c.Eval(1)
	c.Distinct("close-race", caseNo)
	_ = rand.Int
}

func runtimeGosched() { runtime.Gosched() }
