package checks

import (
	"errors"
	"fmt"
	"math/rand"
	"os"
	"path/filepath"
	"runtime"
	"sort"
	"strings"
	"sync"
	"sync/atomic"
	"time"

	"github.com/anishathalye/porcupine"
	"github.com/fsnotify/fsnotify"

	"harness/core"
	"harness/twin"
)

func init() {
	core.Register(&core.Check{
		ID:    "C07",
		Level: "exploration",
		Rule: "E-lin + E-race: 2-6 client goroutines x 4-10 operations each (Add/Remove/WatchList over 3-4 directories, with and without one Close) record {call, return} around every public API call from one monotonic clock while 1-3 mutator goroutines create/write/rename/delete entries inside those directories and a consumer drains at PRNG pace (in a third of the histories it receives nothing until the clients are done, so the reader is parked); a final WatchList after a sentinel barrier is part of every history; " +
			"GOMAXPROCS in {1,2,4,16}; PRNG delays at the verif yield points. Each history is checked with porcupine against a sequential model (closed flag + set of watched paths; Add=>nil/ErrClosed, Remove=>nil/ErrNonExistentWatch, WatchList=>exactly the set without duplicates, nil iff closed, Close=>nil); any other result has no transition. " +
			"The same workload runs under the race detector (reports with a frame in the library are violations). A weaker-oracle variant lets mutators delete/rename/recreate the watched directories themselves: only no race/panic/deadlock, result classes, no duplicates and tables==kernel at the final barrier are checked; half of those histories use recursive watches (switched on through the hook) with directories created, removed and renamed below the roots, so that the reader goroutine registers and re-keys watches while the clients call the API (races, panics, deadlocks only). " +
			"Plus the replace race (4 Watchers in parallel, hundreds of iterations each: delete or rename away the watched file, create a new one under the name, Add it again while an Add spammer and WatchList pollers contend for the lock and the reader works through the old file's notifications; after a sentinel barrier the file must be listed, backed by exactly one kernel mark and report one Chmod). " +
			"And the remove/add race: Remove(p) and Add(p) started together with the reader parked, 250 iterations; WatchList after both returned must equal WatchList after the reader has worked through everything queued (no call in between), listed <=> kernel mark, a listed path reports a chmod. " +
			"distinct_nontrivial = distinct histories (by operation/result vector) with >=2 genuinely overlapping operations",
		Assumptions: []string{"porcupine's verdict Unknown (timeout) is inconclusive", "linearizability is checked for histories in which the watched directories themselves are not deleted (the watch would end asynchronously, which a sequential model cannot place)"},
		Batches:     func(t string) int { return map[string]int{"quick": 12, "thorough": 48}[t] },
		RaceBatches: func(t string) int { return map[string]int{"quick": 4, "thorough": 24}[t] },
		MustObserve: []string{"remove_add_race_iterations", "histories_checked", "histories_with_overlap", "linearizable", "weak_variant_histories", "replace_race_iterations"},
		Run:         runC07,
	})
}

type linIn struct {
	Op string
	I  int
}
type linOut struct {
	Res  string
	List int
}
type linState struct {
	Closed bool
	Set    int
}

var linModel = porcupine.Model{
	Init: func() interface{} { return linState{} },
	Step: func(s, i, o interface{}) (bool, interface{}) {
		S, I, O := s.(linState), i.(linIn), o.(linOut)
		switch I.Op {
		case "add":
			if S.Closed {
				return O.Res == "closed", S
			}
			S.Set |= 1 << I.I
			return O.Res == "nil", S
		case "remove":
			if S.Closed {
				return O.Res == "nil", S
			}
			if S.Set&(1<<I.I) != 0 {
				S.Set &^= 1 << I.I
				return O.Res == "nil", S
			}
			return O.Res == "nonexist", S
		case "list":
			if S.Closed {
				return O.List == -1, S
			}
			return O.List == S.Set, S
		case "close":
			S.Closed = true
			return O.Res == "nil", S
		}
		return false, S
	},
	DescribeOperation: func(i, o interface{}) string {
		I, O := i.(linIn), o.(linOut)
		if I.Op == "list" {
			return fmt.Sprintf("WatchList()=%#b", O.List)
		}
		return fmt.Sprintf("%s(%d)=%s", I.Op, I.I, O.Res)
	},
}

func errClass(err error) string {
	switch {
	case err == nil:
		return "nil"
	case errors.Is(err, fsnotify.ErrClosed):
		return "closed"
	case errors.Is(err, fsnotify.ErrNonExistentWatch):
		return "nonexist"
	}
	return "other:" + pathRe.ReplaceAllString(err.Error(), "<path>")
}

func runC07(c *core.Ctx) {
	n := c.Pick(150, 600)
	if c.Race {
		n = c.Pick(100, 400)
	}
	var a apiTrack
	var st probeStats
	defer runtime.GOMAXPROCS(runtime.GOMAXPROCS(0))
	t0 := time.Now()
	for i := 0; i < n; i++ {
		rng, ok := c.CaseRng(i, "concurrent history")
		if !ok {
			continue
		}
		installProbeHooks(&a, &st, rng.Int63(), rng.Intn(3) > 0)
		runtime.GOMAXPROCS([]int{1, 2, 4, 16}[rng.Intn(4)])
		dir, done := caseDir(c, i)
		weak := i%5 == 4
		stop := c07Case(c, rng, dir, i, t0, weak)
		done()
		if stop {
			break
		}
	}
	fsnotify.VerifSetHooks(nil)
	runtime.GOMAXPROCS(16)
	replaceRace(c, 5000000, "")
	removeAddRace(c, 5000001)
	st.points.Range(func(k, v interface{}) bool {
		c.Hist("yield_point_hits", k.(string), atomic.LoadInt64(v.(*int64)))
		return true
	})
}

func c07Case(c *core.Ctx, rng *rand.Rand, dir string, idx int, t0 time.Time, weak bool) (stop bool) {
	base := filepath.Join(dir, "t")
	os.MkdirAll(base, 0o755)
	nd := 3 + rng.Intn(2)
	var paths []string
	pidx := map[string]int{}
	for i := 0; i < nd; i++ {
		p := filepath.Join(base, fmt.Sprint("d", i))
		os.Mkdir(p, 0o755)
		paths = append(paths, p)
		pidx[p] = i
	}
	// half of the weak-oracle histories use the (not yet public) recursive watch: the reader goroutine then
	// registers and re-keys watches itself while the clients call the API. Only races, panics and deadlocks
	// are judged there.
	recur := weak && rng.Intn(2) == 0
	if recur {
		fsnotify.VerifSetRecurse(true)
		defer fsnotify.VerifSetRecurse(false)
		c.Count("weak_variant_recursive_histories", 1)
	}
	spell := func(i int) string {
		if recur {
			return paths[i] + "/..."
		}
		return paths[i]
	}
	w, err := fsnotify.NewBufferedWatcher(uint([]int{0, 0, 16}[rng.Intn(3)]))
	if err != nil {
		c.Broken(err.Error())
		return true
	}
	stopAll := make(chan struct{})
	var bg sync.WaitGroup
	bg.Add(1)
	delay := time.Duration(rng.Intn(3)*rng.Intn(100)) * time.Microsecond
	var hold int32 // 1: the consumer receives nothing (the reader parks in a send) until the clients are done
	if rng.Intn(3) == 0 {
		hold = 1
	}
	go func() {
		defer bg.Done()
		evc, erc := w.Events, w.Errors
		for evc != nil || erc != nil {
			if atomic.LoadInt32(&hold) == 1 {
				select {
				case <-stopAll:
					return
				case <-time.After(200 * time.Microsecond):
				}
				continue
			}
			select {
			case _, ok := <-evc:
				if !ok {
					evc = nil
				} else if delay > 0 {
					time.Sleep(delay)
				}
			case _, ok := <-erc:
				if !ok {
					erc = nil
				}
			case <-stopAll:
				return
			}
		}
	}()
	nm := 1 + rng.Intn(3)
	for m := 0; m < nm; m++ {
		bg.Add(1)
		seed := rng.Int63()
		go func() {
			defer bg.Done()
			r := rand.New(rand.NewSource(seed))
			for {
				select {
				case <-stopAll:
					return
				default:
				}
				d := paths[r.Intn(nd)]
				f := filepath.Join(d, fmt.Sprint("f", r.Intn(4)))
				switch r.Intn(6) {
				case 0, 1:
					os.WriteFile(f, []byte("x"), 0o644)
				case 2:
					os.Remove(f)
				case 3:
					os.Rename(f, filepath.Join(paths[r.Intn(nd)], fmt.Sprint("f", r.Intn(4))))
				case 4:
					os.Chmod(f, 0o600)
				case 5:
					if recur && r.Intn(2) == 0 { // directories come and go below the roots
						sd := filepath.Join(d, fmt.Sprint("s", r.Intn(3)))
						switch r.Intn(3) {
						case 0:
							os.Mkdir(sd, 0o755)
							os.WriteFile(filepath.Join(sd, "x"), nil, 0o644)
						case 1:
							os.RemoveAll(sd)
						case 2:
							os.Rename(sd, filepath.Join(paths[r.Intn(nd)], fmt.Sprint("s", r.Intn(3))))
						}
					} else if weak { // delete / rename / recreate the watched directory itself
						switch r.Intn(3) {
						case 0:
							os.RemoveAll(d)
							os.Mkdir(d, 0o755)
						case 1:
							os.Rename(d, d+"~")
							os.Mkdir(d, 0o755)
							os.RemoveAll(d + "~")
						}
					}
				}
				time.Sleep(time.Duration(r.Intn(30)) * time.Microsecond)
			}
		}()
	}
	nc := 2 + rng.Intn(5)
	per := 4 + rng.Intn(7)
	withClose := rng.Intn(2) == 0
	closeAt := [2]int{rng.Intn(nc), rng.Intn(per)}
	var mu sync.Mutex
	var ops []porcupine.Operation
	var wg sync.WaitGroup
	start := make(chan struct{})
	var hangDump atomic.Value
	seeds := make([]int64, nc)
	for i := range seeds {
		seeds[i] = rng.Int63()
	}
	var strays sync.Map
	for cl := 0; cl < nc; cl++ {
		wg.Add(1)
		go func(cl int) {
			defer wg.Done()
			r := rand.New(rand.NewSource(seeds[cl]))
			<-start
			for k := 0; k < per; k++ {
				var I linIn
				var O linOut
				switch x := r.Intn(10); {
				case x < 4:
					I = linIn{"add", r.Intn(nd)}
				case x < 8:
					I = linIn{"remove", r.Intn(nd)}
				default:
					I = linIn{"list", 0}
				}
				if withClose && cl == closeAt[0] && k == closeAt[1] {
					I = linIn{"close", 0}
				}
				call := time.Since(t0).Nanoseconds()
				ok, dump := core.WithWatchdog(twin.WatchdogTimeout, func() {
					switch I.Op {
					case "add":
						O.Res = errClass(w.Add(spell(I.I)))
					case "remove":
						O.Res = errClass(w.Remove(spell(I.I)))
					case "close":
						O.Res = errClass(w.Close())
					case "list":
						l := w.WatchList()
						if l == nil {
							O.List = -1
						} else if !recur {
							sort.Strings(l)
							for j, p := range l {
								b, known := pidx[p]
								if !known {
									O.List = -3
									strays.Store("WatchList shows a path that was never added: "+p, true)
									break
								}
								if j > 0 && l[j-1] == p {
									O.List = -2
									strays.Store("WatchList shows a path twice: "+p, true)
									break
								}
								O.List |= 1 << b
							}
						}
					}
				})
				ret := time.Since(t0).Nanoseconds()
				if !ok {
					hangDump.Store(dump)
					return // the operation stays open: not recorded as completed
				}
				if strings.HasPrefix(O.Res, "other:") {
					strays.Store(fmt.Sprintf("%s returned %s", I.Op, O.Res[6:]), true)
				}
				mu.Lock()
				ops = append(ops, porcupine.Operation{ClientId: cl, Input: I, Call: call, Output: O, Return: ret})
				mu.Unlock()
			}
		}(cl)
	}
	close(start)
	wg.Wait()
	atomic.StoreInt32(&hold, 0)
	if d, _ := hangDump.Load().(string); d != "" {
		cls := hangClass(d)
		close(stopAll)
		if strings.Contains(cls, "send-under-lock") || cls == "lock-leaked" || cls == "deadlock:lock-order" {
			c.Violate("deadlock", "an API call did not return: "+cls, dumpExcerpt(d))
		} else {
			c.Inconclusive("API call not returned at the watchdog, dump class " + cls)
		}
		return true
	}
	// final consistency (both variants): tables == kernel marks at quiescence
	if !withClose {
		time.Sleep(2 * time.Millisecond)
	}
	close(stopAll)
	bg.Wait()
	if !withClose {
		// Quiescence is a logical condition, not a sleep: a consumer keeps draining both
		// channels; the stream is quiescent when the kernel queue of the Watcher's inotify
		// descriptor is empty (FIONREAD == 0) and a sentinel created afterwards has been received.
		sent := filepath.Join(base, "zz-sentinel-dir")
		os.Mkdir(sent, 0o755)
		sentSeen := make(chan string, 64)
		stopDrain := make(chan struct{})
		drainDone := make(chan struct{})
		go func() {
			defer close(drainDone)
			for {
				select {
				case e, ok := <-w.Events:
					if !ok {
						return
					}
					if strings.HasPrefix(e.Name, sent+"/") {
						select {
						case sentSeen <- e.Name:
						default:
						}
					}
				case _, ok := <-w.Errors:
					if !ok {
						return
					}
				case <-stopDrain:
					return
				}
			}
		}()
		quiescent := false
		if err := w.Add(sent); err == nil {
			mark := filepath.Join(sent, "m")
			os.WriteFile(mark, nil, 0o644)
			deadline := time.After(twin.WatchdogTimeout)
		wait:
			for {
				select {
				case n := <-sentSeen:
					if n == mark {
						quiescent = true
						break wait
					}
				case <-deadline:
					break wait
				}
			}
			w.Remove(sent)
		}
		if !quiescent {
			c.Inconclusive("concurrent history: the final sentinel was not delivered before the watchdog; tables not judged")
		} else if recur {
			// mkdir -p style bursts are a documented limitation of the unfinished feature: tables not judged
		} else if bad, _ := twin.Invariant(w); bad != "" {
			c.Violate("tables-vs-kernel-after-concurrent-history", bad, nil)
		}
		close(stopDrain)
		<-drainDone
	}
	if !weak {
		// one more WatchList after everything has settled, as part of the history: whatever
		// interleaving happened, the set it shows must be explained by the calls that returned
		var O linOut
		call := time.Since(t0).Nanoseconds()
		l := w.WatchList()
		if l == nil {
			O.List = -1
		} else {
			sort.Strings(l)
			for j, p := range l {
				b, known := pidx[p]
				if !known {
					O.List = -3
					strays.Store("WatchList shows a path that was never added: "+p, true)
					break
				}
				if j > 0 && l[j-1] == p {
					O.List = -2
					strays.Store("WatchList shows a path twice: "+p, true)
					break
				}
				O.List |= 1 << b
			}
		}
		ops = append(ops, porcupine.Operation{ClientId: nc, Input: linIn{"list", 0}, Call: call, Output: O, Return: time.Since(t0).Nanoseconds()})
	}
	core.WithWatchdog(twin.WatchdogTimeout, func() { w.Close() })
	// overlap statistics
	overlap := 0
	for i := range ops {
		for j := i + 1; j < len(ops); j++ {
			if ops[i].ClientId != ops[j].ClientId && ops[i].Call < ops[j].Return && ops[j].Call < ops[i].Return {
				overlap++
			}
		}
	}
	c.Eval(1)
	c.Count("operations_recorded", int64(len(ops)))
	c.Count("overlapping_operation_pairs", int64(overlap))
	if overlap >= 1 {
		c.Count("histories_with_overlap", 1)
	}
	var stray []string
	strays.Range(func(k, _ interface{}) bool { stray = append(stray, k.(string)); return true })
	sort.Strings(stray)
	if weak {
		c.Count("weak_variant_histories", 1)
		for _, s := range stray {
			if strings.HasPrefix(s, "WatchList") {
				c.Violate("watchlist-duplicate-or-stranger", s, nil)
			}
		}
		if overlap >= 2 {
			c.Distinct("weak", histKey(ops))
		}
		return false
	}
	res, info := porcupine.CheckOperationsVerbose(linModel, ops, 20*time.Second)
	c.Count("histories_checked", 1)
	switch res {
	case porcupine.Ok:
		c.Count("linearizable", 1)
		if overlap >= 2 {
			c.Distinct(histKey(ops))
		}
		if idx < 2 {
			c.Sample(map[string]interface{}{"clients": nc, "ops_per_client": per, "with_close": withClose, "overlapping_pairs": overlap, "history": describeOps(ops)})
		}
	case porcupine.Unknown:
		c.Inconclusive("porcupine timed out on a history of " + fmt.Sprint(len(ops)) + " operations")
	case porcupine.Illegal:
		sig := "not-linearizable"
		if len(stray) > 0 {
			sig = "non-sequential-result:" + stray[0]
		}
		_ = info
		c.Violate(sig, fmt.Sprintf("no sequential order of the calls explains these results (clients=%d, with Close=%v, stray results %v): %v", nc, withClose, stray, describeOps(ops)), describeOps(ops))
	}
	return false
}

func describeOps(ops []porcupine.Operation) []string {
	s := append([]porcupine.Operation{}, ops...)
	sort.Slice(s, func(i, j int) bool { return s[i].Call < s[j].Call })
	var out []string
	for _, o := range s {
		out = append(out, fmt.Sprintf("c%d [%d,%d] %s", o.ClientId, o.Call, o.Return, linModel.DescribeOperation(o.Input, o.Output)))
	}
	return out
}

func histKey(ops []porcupine.Operation) string {
	s := append([]porcupine.Operation{}, ops...)
	sort.Slice(s, func(i, j int) bool {
		if s[i].ClientId != s[j].ClientId {
			return s[i].ClientId < s[j].ClientId
		}
		return s[i].Call < s[j].Call
	})
	var b strings.Builder
	for _, o := range s {
		fmt.Fprintf(&b, "%d:%s;", o.ClientId, linModel.DescribeOperation(o.Input, o.Output))
	}
	return b.String()
}
