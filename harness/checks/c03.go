package checks

import (
	"fmt"
	"strings"
	"time"

	"harness/core"
	"harness/twin"
)

func init() {
	core.Register(&core.Check{
		ID:    "C03",
		Level: "exploration",
		Rule: "E-twin: one sequential driver gives a total kernel order; the translated shadow log is that order. Programs are run under Events buffer sizes {default,0,1,2,16,4096} x consumer paces {immediate, PRNG us delay per receive, bursty pause/resume} x 1-6 watched directories; " +
			"events present on both sides at different positions are an order violation; every Create carrying an old name must be immediately preceded by the Rename of that name. " +
			"distinct_nontrivial = distinct (program, buffer, pace) runs with >=1 compared event and >=2 op kinds",
		Assumptions: []string{"kernel shadow = ground truth (see C01)", "the repo's own cmpEvents sorts both sides, so order is new information"},
		Batches:     func(t string) int { return map[string]int{"quick": 16, "thorough": 64}[t] },
		MustObserve: []string{"events_received", "windows_compared", "renames_with_old_name_checked"},
		Run:         runC03,
	})
}

func runC03(c *core.Ctx) {
	installStatHooks()
	defer flushHookStats(c)
	bufs := []int{-1, 0, 1, 2, 16, 4096}
	n := c.Pick(36, 144)
	hangs := 0
	for i := 0; i < n && hangs < 2; i++ {
		rng, ok := c.CaseRng(i, "twin program x buffer x pace")
		if !ok {
			continue
		}
		cfg := twinConfig(c, rng)
		cfg.BufSize = bufs[i%len(bufs)]
		pace := (i / len(bufs)) % 3
		switch pace {
		case 0:
			cfg.PauseBias, cfg.Delay = 0, 0
		case 1:
			cfg.PauseBias, cfg.Delay = 0, time.Duration(1+rng.Intn(300))*time.Microsecond
			if cfg.Steps > 400 {
				cfg.Steps = 400
			}
		case 2:
			cfg.PauseBias, cfg.Delay = 1, 0
		}
		cfg.KeepGoing = true
		dir, done := caseDir(c, i)
		rep := twin.RunProgram(rng, dir, cfg)
		done()
		c.Eval(1)
		reportStats(c, rep)
		c.Hist("buffer_sizes", fmt.Sprint(cfg.BufSize), 1)
		c.Hist("paces", []string{"immediate", "delayed", "bursty"}[pace], 1)
		if rep.Broken != "" {
			c.Broken(rep.Broken)
			continue
		}
		if nontrivial(rep) {
			c.Distinct(c.Batch, i, cfg.BufSize, pace, opKindsKey(rep))
		}
		c.Count("renames_with_old_name_checked", int64(rep.Masks[0x80])) // IN_MOVED_TO notifications seen
		for _, d := range rep.Diffs {
			if len(d.Diff.Reordered) > 0 {
				c.Violate("reordered", fmt.Sprintf("events %v were delivered at another position than the kernel reported them; want %v got %v", d.Diff.Reordered, d.Want, d.Got), d)
			}
		}
		for _, p := range rep.Predicates {
			if strings.HasPrefix(p, "rename-not-adjacent") {
				c.Violate("rename-not-adjacent", p, rep.FinalLog)
			}
		}
		if rep.Hang != "" {
			hangs++
			c.Inconclusive("barrier watchdog fired, dump class " + hangClass(rep.Hang))
		}
		if i%12 == 0 && len(rep.Diffs) == 0 {
			c.Sample(map[string]interface{}{"config": cfg, "history_tail": rep.FinalLog, "events_received": rep.Received})
		}
	}
}
