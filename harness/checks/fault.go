package checks

import (
	"encoding/json"
	"errors"
	"fmt"
	"os"
	"os/exec"
	"path/filepath"
	"runtime"
	"strings"
	"syscall"
	"time"

	"github.com/fsnotify/fsnotify"

	"harness/core"
	"harness/twin"
)

// E-fault with strace: a grandchild process runs a small scripted Watcher
// session while `strace -e inject=read:error=EIO:when=N -P anon_inode:inotify`
// makes the N-th read(2) of each thread on the inotify descriptor fail. The
// injected read is not executed, so no notification is lost: afterwards every
// event must still arrive, the failure must have been reported on Errors, the
// Watcher must keep accepting Add/Remove (C10) and Close must still release the
// descriptor and the reader goroutine (C13).

type faultResult struct {
	Events        int      `json:"events"`
	Expected      int      `json:"expected"`
	Errors        []string `json:"errors"`
	ErrorsAreEIO  bool     `json:"errors_are_eio"`
	AddAfter      string   `json:"add_after"`
	RemoveAfter   string   `json:"remove_after"`
	LateEventSeen bool     `json:"late_event_seen"`
	CloseErr      string   `json:"close_err"`
	InotifyFds    int      `json:"inotify_fds_after_close"`
	Readers       int      `json:"reader_goroutines_after_close"`
	ChannelsEnded bool     `json:"channels_closed"`
}

// FaultChildMain is the scripted session (runs under strace).
func FaultChildMain(args []string) int {
	out := args[0]
	var r faultResult
	d, _ := os.MkdirTemp("", "vfault")
	defer os.RemoveAll(d)
	w, err := fsnotify.NewWatcher()
	if err != nil {
		fmt.Fprintln(os.Stderr, err)
		return 2
	}
	a, b := filepath.Join(d, "a"), filepath.Join(d, "b")
	os.Mkdir(a, 0o755)
	os.Mkdir(b, 0o755)
	w.Add(a)
	r.Expected = 12
	go func() {
		for i := 0; i < r.Expected; i++ {
			os.WriteFile(filepath.Join(a, fmt.Sprint("f", i)), nil, 0o644)
			time.Sleep(3 * time.Millisecond)
		}
	}()
	r.ErrorsAreEIO = true
	deadline := time.After(3 * time.Second)
	collect := func(until func() bool) {
		for !until() {
			select {
			case e, ok := <-w.Events:
				if !ok {
					return
				}
				if strings.HasPrefix(e.Name, a) && e.Op&fsnotify.Create != 0 {
					r.Events++
				}
				if e.Name == filepath.Join(b, "late") {
					r.LateEventSeen = true
				}
			case e, ok := <-w.Errors:
				if !ok {
					return
				}
				r.Errors = append(r.Errors, e.Error())
				if !errors.Is(e, syscall.EIO) {
					r.ErrorsAreEIO = false
				}
			case <-deadline:
				return
			}
		}
	}
	collect(func() bool { return r.Events >= r.Expected })
	// the Watcher must have survived: Add, a new event, Remove
	if err := w.Add(b); err != nil {
		r.AddAfter = err.Error()
	}
	os.WriteFile(filepath.Join(b, "late"), nil, 0o644)
	deadline = time.After(3 * time.Second)
	collect(func() bool { return r.LateEventSeen })
	if err := w.Remove(b); err != nil {
		r.RemoveAfter = err.Error()
	}
	if err := w.Close(); err != nil {
		r.CloseErr = err.Error()
	}
	ended := make(chan struct{})
	go func() {
		for range w.Events {
		}
		for range w.Errors {
		}
		close(ended)
	}()
	select {
	case <-ended:
		r.ChannelsEnded = true
	case <-time.After(5 * time.Second):
	}
	for i := 0; i < 2000; i++ {
		r.InotifyFds, r.Readers = twin.InotifyFds(), readerGoroutines()
		if r.InotifyFds == 0 && r.Readers == 0 {
			break
		}
		time.Sleep(100 * time.Microsecond)
	}
	bts, _ := json.Marshal(r)
	os.WriteFile(out, bts, 0o644)
	runtime.KeepAlive(w) // keep the Watcher reachable until here: no finalizer may hide a leaked descriptor
	return 0
}

// runFault runs one injected session; injected = number of reads that were made to fail.
func runFault(c *core.Ctx, when string) (r faultResult, injected int, ok bool) {
	self, err := os.Executable()
	if err != nil {
		return r, 0, false
	}
	if _, err := exec.LookPath("strace"); err != nil {
		c.Count("strace_missing", 1)
		return r, 0, false
	}
	out := filepath.Join(c.Tmp, "fault-"+strings.ReplaceAll(when, ".", "_")+".json")
	trace := out + ".strace"
	cmd := exec.Command("strace", "-f", "-o", trace, "-e", "trace=read", "-e", "inject=read:error=EIO:when="+when, "-P", "anon_inode:inotify", self, "faultchild", out)
	cmd.Stdout, cmd.Stderr = os.Stderr, os.Stderr
	done := make(chan error, 1)
	if err := cmd.Start(); err != nil {
		return r, 0, false
	}
	go func() { done <- cmd.Wait() }()
	select {
	case <-done:
	case <-time.After(60 * time.Second):
		cmd.Process.Kill()
		<-done
		c.Inconclusive("fault session under strace did not finish within 60 s (when=" + when + ")")
		return r, 0, false
	}
	tb, _ := os.ReadFile(trace)
	injected = strings.Count(string(tb), "(INJECTED)")
	b, err := os.ReadFile(out)
	if err != nil || json.Unmarshal(b, &r) != nil {
		c.Inconclusive("fault session wrote no result (when=" + when + ")")
		return r, injected, false
	}
	return r, injected, true
}

var faultWhens = []string{"1", "2", "3", "5", "2+2", "1..3"}
