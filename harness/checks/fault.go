package checks

import (
	"sync/atomic"
	"encoding/json"
	"errors"
	"fmt"
	"os"
	"os/exec"
	"path/filepath"
	"runtime"
	"strings"
	"syscall"
	"time"

	"github.com/fsnotify/fsnotify"

	"harness/core"
	"harness/twin"
)

// E-fault with strace: a grandchild process runs a small scripted Watcher
// session while `strace -e inject=read:error=EIO:when=N -P anon_inode:inotify`
// makes the N-th read(2) of each thread on the inotify descriptor fail. The
// injected read is not executed, so no notification is lost: afterwards every
// event must still arrive, the failure must have been reported on Errors, the
// Watcher must keep accepting Add/Remove (C10) and Close must still release the
// descriptor and the reader goroutine (C13).

type faultResult struct {
	Events        int      `json:"events"`
	Expected      int      `json:"expected"`
	Errors        []string `json:"errors"`
	ErrorsAreEIO  bool     `json:"errors_are_eio"`
	AddAfter      string   `json:"add_after"`
	RemoveAfter   string   `json:"remove_after"`
	LateEventSeen bool     `json:"late_event_seen"`
	CloseErr      string   `json:"close_err"`
	InotifyFds    int      `json:"inotify_fds_after_close"`
	Readers       int      `json:"reader_goroutines_after_close"`
	ChannelsEnded bool     `json:"channels_closed"`
	// neighbours: Watchers created AFTER the read error of the first one, each on its own directory
	Neighbours        int      `json:"neighbours"`
	NeighbourProblems []string `json:"neighbour_problems"`
	NeighbourTimeouts int      `json:"neighbours_not_judged"`
}

// FaultChildMain is the scripted session (runs under strace).
func FaultChildMain(args []string) int {
	out := args[0]
	var r faultResult
	d, _ := os.MkdirTemp("", "vfault")
	defer os.RemoveAll(d)
	w, err := fsnotify.NewWatcher()
	if err != nil {
		fmt.Fprintln(os.Stderr, err)
		return 2
	}
	a, b := filepath.Join(d, "a"), filepath.Join(d, "b")
	os.Mkdir(a, 0o755)
	os.Mkdir(b, 0o755)
	w.Add(a)
	r.Expected = 12
	go func() {
		for i := 0; i < r.Expected; i++ {
			os.WriteFile(filepath.Join(a, fmt.Sprint("f", i)), nil, 0o644)
			time.Sleep(3 * time.Millisecond)
		}
	}()
	r.ErrorsAreEIO = true
	deadline := time.After(3 * time.Second)
	collect := func(until func() bool) {
		for !until() {
			select {
			case e, ok := <-w.Events:
				if !ok {
					return
				}
				if strings.HasPrefix(e.Name, a) && e.Op&fsnotify.Create != 0 {
					r.Events++
				}
				if e.Name == filepath.Join(b, "late") {
					r.LateEventSeen = true
				}
			case e, ok := <-w.Errors:
				if !ok {
					return
				}
				r.Errors = append(r.Errors, e.Error())
				if !errors.Is(e, syscall.EIO) {
					r.ErrorsAreEIO = false
				}
			case <-deadline:
				return
			}
		}
	}
	collect(func() bool { return r.Events >= r.Expected })
	// the Watcher must have survived: Add, a new event, Remove
	if err := w.Add(b); err != nil {
		r.AddAfter = err.Error()
	}
	os.WriteFile(filepath.Join(b, "late"), nil, 0o644)
	deadline = time.After(3 * time.Second)
	collect(func() bool { return r.LateEventSeen })
	if err := w.Remove(b); err != nil {
		r.RemoveAfter = err.Error()
	}
	// Watchers created after the read error must be independent of the one that had it: each watches its own
	// directory; files are created in all of them (and in a's) in an interleaved way while every consumer is
	// slow, so that readers sit in the middle of a batch; each neighbour must deliver exactly its own names.
	if os.Getenv("VERIF_FAULT_NEIGHBOURS") != "" {
		const nY, perY = 16, 40
		type nb struct {
			w    *fsnotify.Watcher
			d    string
			got  map[string]int
			sent int64 // 1 once the sentinel's Create was received (atomic)
			errs []string
			done chan struct{}
		}
		var ys []*nb
		mk := func(n int) {
			for i := 0; i < n; i++ {
				yw, err := fsnotify.NewWatcher()
				if err != nil {
					return
				}
				y := &nb{w: yw, d: filepath.Join(d, fmt.Sprint("y", len(ys))), got: map[string]int{}, done: make(chan struct{})}
				os.Mkdir(y.d, 0o755)
				yw.Add(y.d)
				ys = append(ys, y)
				go func() {
					defer close(y.done)
					ev, er := y.w.Events, y.w.Errors
					for ev != nil || er != nil {
						select {
						case e, ok := <-ev:
							if !ok {
								ev = nil
								continue
							}
							y.got[e.Name]++
							if filepath.Base(e.Name) == "zz-sentinel" {
								atomic.StoreInt64(&y.sent, 1)
							}
							time.Sleep(200 * time.Microsecond) // slow consumer: the reader waits mid-batch
						case e, ok := <-er:
							if !ok {
								er = nil
								continue
							}
							y.errs = append(y.errs, e.Error())
						}
					}
				}()
			}
		}
		go func() { // the first Watcher keeps getting events meanwhile; nobody needs them
			for {
				select {
				case _, ok := <-w.Events:
					if !ok {
						return
					}
				case _, ok := <-w.Errors:
					if !ok {
						return
					}
				}
			}
		}()
		// two generations: the second is created after the first has had read errors of its own (strace
		// injects into every inotify descriptor), and both are then active together
		perGen := map[int]int{}
		round := func(from, n int) {
			for k := from; k < from+n; k++ {
				os.WriteFile(filepath.Join(a, fmt.Sprintf("interleaved-%03d-with-a-long-name-to-fill-the-buffer", k)), nil, 0o644)
				for i, y := range ys {
					os.WriteFile(filepath.Join(y.d, fmt.Sprintf("n%03d", perGen[i])), nil, 0o644)
					perGen[i]++
				}
			}
		}
		mk(nY / 2)
		round(0, perY/2)
		time.Sleep(20 * time.Millisecond)
		mk(nY / 2)
		round(perY/2, perY/2)
		r.Neighbours = len(ys)
		// sentinel per neighbour, created after everything else: the queue of one inotify instance is ordered, so
		// once it has been received everything before it was delivered or is lost for good. A neighbour whose
		// sentinel does not arrive within the (generous) cap is not judged.
		for _, y := range ys {
			os.WriteFile(filepath.Join(y.d, "zz-sentinel"), nil, 0o644)
		}
		judged := make([]bool, len(ys))
		for i, y := range ys {
			for k := 0; k < 300000; k++ {
				if atomic.LoadInt64(&y.sent) == 1 {
					judged[i] = true
					break
				}
				time.Sleep(100 * time.Microsecond)
			}
			if !judged[i] {
				r.NeighbourTimeouts++
			}
		}
		for i, y := range ys {
			y.w.Close()
			<-y.done
			if !judged[i] {
				continue
			}
			delete(y.got, filepath.Join(y.d, "zz-sentinel"))
			for k := 0; k < perGen[i]; k++ {
				nm := filepath.Join(y.d, fmt.Sprintf("n%03d", k))
				if y.got[nm] != 1 {
					r.NeighbourProblems = append(r.NeighbourProblems, fmt.Sprintf("neighbour %d: Create of %s delivered %d times", i, filepath.Base(nm), y.got[nm]))
					break
				}
			}
			for nm := range y.got {
				if filepath.Dir(nm) != y.d {
					r.NeighbourProblems = append(r.NeighbourProblems, fmt.Sprintf("neighbour %d delivered a foreign or garbled name %q", i, nm))
					break
				}
			}
			// (values on the neighbours' Errors are not judged: strace injects into every inotify descriptor
			// of the process, so they have read errors of their own)
		}
	}
	if err := w.Close(); err != nil {
		r.CloseErr = err.Error()
	}
	ended := make(chan struct{})
	go func() {
		for range w.Events {
		}
		for range w.Errors {
		}
		close(ended)
	}()
	select {
	case <-ended:
		r.ChannelsEnded = true
	case <-time.After(5 * time.Second):
	}
	for i := 0; i < 2000; i++ {
		r.InotifyFds, r.Readers = twin.InotifyFds(), readerGoroutines()
		if r.InotifyFds == 0 && r.Readers == 0 {
			break
		}
		time.Sleep(100 * time.Microsecond)
	}
	bts, _ := json.Marshal(r)
	os.WriteFile(out, bts, 0o644)
	runtime.KeepAlive(w) // keep the Watcher reachable until here: no finalizer may hide a leaked descriptor
	return 0
}

// runFault runs one injected session; injected = number of reads that were made to fail.
func runFault(c *core.Ctx, when string) (r faultResult, injected int, ok bool) {
	return runFaultSpec(c, "error=EIO", when)
}

// runFaultSpec: spec is strace's injection ("error=EIO", "error=EINTR", "retval=0", "retval=8").
func runFaultSpec(c *core.Ctx, spec, when string) (r faultResult, injected int, ok bool) {
	self, err := os.Executable()
	if err != nil {
		return r, 0, false
	}
	if _, err := exec.LookPath("strace"); err != nil {
		c.Count("strace_missing", 1)
		return r, 0, false
	}
	out := filepath.Join(c.Tmp, "fault-"+strings.ReplaceAll(spec, "=", "_")+"-"+strings.ReplaceAll(when, ".", "_")+".json")
	trace := out + ".strace"
	cmd := exec.Command("strace", "-f", "-o", trace, "-e", "trace=read", "-e", "inject=read:"+spec+":when="+when, "-P", "anon_inode:inotify", self, "faultchild", out)
	cmd.Stdout, cmd.Stderr = os.Stderr, os.Stderr
	if faultNeighbours {
		cmd.Env = append(os.Environ(), "VERIF_FAULT_NEIGHBOURS=1")
	}
	done := make(chan error, 1)
	if err := cmd.Start(); err != nil {
		return r, 0, false
	}
	go func() { done <- cmd.Wait() }()
	select {
	case <-done:
	case <-time.After(120 * time.Second):
		cmd.Process.Kill()
		<-done
		c.Inconclusive("fault session under strace did not finish within 120 s (when=" + when + ")")
		return r, 0, false
	}
	tb, _ := os.ReadFile(trace)
	injected = strings.Count(string(tb), "(INJECTED)")
	b, err := os.ReadFile(out)
	if err != nil || json.Unmarshal(b, &r) != nil {
		c.Inconclusive("fault session wrote no result (when=" + when + ")")
		return r, injected, false
	}
	return r, injected, true
}

// faultNeighbours: the next fault sessions also create neighbour Watchers after the read error (C14).
var faultNeighbours bool

var faultWhens = []string{"1", "2", "3", "5", "2+2", "1..3"}

// ---- injected inotify_add_watch failure (C04: a failed Add leaves the set untouched)

type addFaultResult struct {
	Adds       int      `json:"adds"`
	Failed     []string `json:"failed"`
	Complaints []string `json:"complaints"`
	FinalList  int      `json:"final_list"`
}

// AddFaultChildMain adds six existing directories (one of them twice, one through a symlink)
// while strace makes some inotify_add_watch calls fail with ENOSPC ("no space left": the
// per-user watch limit). After EVERY call: a failed path is not listed, a succeeded one is,
// the listed set did not otherwise change, and kernel marks == tables == WatchList.
func AddFaultChildMain(args []string) int {
	out := args[0]
	var r addFaultResult
	d, _ := os.MkdirTemp("", "vaddfault")
	defer os.RemoveAll(d)
	w, err := fsnotify.NewWatcher()
	if err != nil {
		fmt.Fprintln(os.Stderr, err)
		return 2
	}
	defer w.Close()
	go func() {
		for {
			select {
			case _, ok := <-w.Events:
				if !ok {
					return
				}
			case <-w.Errors:
			}
		}
	}()
	var paths []string
	for i := 0; i < 6; i++ {
		p := filepath.Join(d, fmt.Sprint("d", i))
		os.Mkdir(p, 0o755)
		paths = append(paths, p)
	}
	os.Symlink(paths[1], filepath.Join(d, "l1"))
	seq := []string{paths[0], paths[1], paths[0], filepath.Join(d, "l1"), paths[2], paths[3], paths[2], paths[4], paths[5]}
	model := map[string]bool{}
	inoOf := map[string]string{filepath.Join(d, "l1"): paths[1]}
	listed := func() map[string]bool {
		m := map[string]bool{}
		for _, p := range w.WatchList() {
			m[p] = true
		}
		return m
	}
	for _, p := range seq {
		before := listed()
		err := w.Add(p)
		r.Adds++
		after := listed()
		target := p
		if t, ok := inoOf[p]; ok {
			target = t
		}
		if err != nil {
			r.Failed = append(r.Failed, filepath.Base(p)+": "+err.Error())
			if fmt.Sprint(before) != fmt.Sprint(after) {
				r.Complaints = append(r.Complaints, fmt.Sprintf("failed Add(%s) changed WatchList from %d to %d entries", filepath.Base(p), len(before), len(after)))
			}
		} else {
			already := model[target]
			for q := range model {
				if inoOf[q] == target || q == target {
					already = true
				}
			}
			if !already {
				model[p] = true
			}
			if !after[p] && !already {
				r.Complaints = append(r.Complaints, fmt.Sprintf("Add(%s) succeeded but the path is not listed", filepath.Base(p)))
			}
		}
		if bad, _ := twin.Invariant(w); bad != "" {
			r.Complaints = append(r.Complaints, fmt.Sprintf("after Add(%s)=%v: %s", filepath.Base(p), err, bad))
		}
	}
	for _, p := range w.WatchList() {
		if err := w.Remove(p); err != nil {
			r.Complaints = append(r.Complaints, fmt.Sprintf("Remove(%s)=%v", filepath.Base(p), err))
		}
	}
	r.FinalList = len(w.WatchList())
	if marks, err := twin.KernelMarks(fsnotify.VerifInotifyFd(w)); err == nil && len(marks) != 0 {
		r.Complaints = append(r.Complaints, fmt.Sprintf("%d kernel marks left after removing everything", len(marks)))
	}
	b, _ := json.Marshal(r)
	os.WriteFile(out, b, 0o644)
	return 0
}

func runAddFault(c *core.Ctx, when string) (r addFaultResult, injected int, ok bool) {
	self, err := os.Executable()
	if err != nil {
		return r, 0, false
	}
	if _, err := exec.LookPath("strace"); err != nil {
		return r, 0, false
	}
	out := filepath.Join(c.Tmp, "addfault-"+strings.NewReplacer(".", "_", "+", "p").Replace(when)+".json")
	trace := out + ".strace"
	cmd := exec.Command("strace", "-f", "-o", trace, "-e", "trace=inotify_add_watch", "-e", "inject=inotify_add_watch:error=ENOSPC:when="+when, self, "addfaultchild", out)
	cmd.Stdout, cmd.Stderr = os.Stderr, os.Stderr
	if err := cmd.Start(); err != nil {
		return r, 0, false
	}
	done := make(chan error, 1)
	go func() { done <- cmd.Wait() }()
	select {
	case <-done:
	case <-time.After(60 * time.Second):
		cmd.Process.Kill()
		<-done
		c.Inconclusive("add-fault session under strace did not finish within 60 s")
		return r, 0, false
	}
	tb, _ := os.ReadFile(trace)
	injected = strings.Count(string(tb), "(INJECTED)")
	b, err := os.ReadFile(out)
	if err != nil || json.Unmarshal(b, &r) != nil {
		c.Inconclusive("add-fault session wrote no result (when=" + when + ")")
		return r, injected, false
	}
	return r, injected, true
}

var addFaultWhens = []string{"1", "2", "3", "4", "2+2", "3+3", "5..7", "1+3"}
