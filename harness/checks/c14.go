package checks

import (
	"fmt"
	"math/rand"
	"os"
	"path/filepath"
	"strings"
	"sync"
	"sync/atomic"
	"time"

	"github.com/fsnotify/fsnotify"
	"golang.org/x/sys/unix"

	"harness/core"
	"harness/twin"
)

func init() {
	core.Register(&core.Check{
		ID:    "C14",
		Level: "exploration",
		Rule: "E-twin x k: (1) cap(Events) of NewBufferedWatcher(n) == n for n in {0,1,2,4,...,65536} and 0 for NewWatcher; (2) 2-4 measured Watchers with different buffer sizes on the same directories plus 1-4 interfering Watchers doing PRNG Add/Remove/Close/re-create, " +
			"all fed by one sequential syscall driver; every measured Watcher's stream must equal the translated kernel log (hence each other); (3) a buffered Watcher with no consumer must hold exactly n<=cap distinct events (len(Events)==n) and deliver them intact and in order when drained; and cap+1 IDENTICAL events, each generated only after the previous one was read out of the kernel queue (FIONREAD==0), must all be delivered; (4) a Watcher is closed while its reader is held (verif yield point at the entry of handleEvent, no lock held) between two records of a batch whose next record is the rename of a watched file; a second Watcher created right away gets the same descriptor number and watch descriptors: its kernel marks, WatchList and Write events must be those of its own history; (5) a Watcher with a pending overflow error (Events drained, nobody on Errors) is closed while 24 Watchers are being created on other directories: each of those must keep its descriptor, its kernel mark, accept Add and report a change; (6) a Watcher subscribed to every operation (including the Linux-only open/read/close ones) on a directory and a file stays silent while other Watchers are created, Add/Remove the same paths and are closed, and then reports exactly the driver's one mkdir; (7) sixteen Watchers created after another Watcher had a read error (EIO injected with strace) each deliver exactly the creations in their own directory. " +
			"distinct_nontrivial = distinct (history, watcher configuration) runs with >=1 compared event",
		Assumptions: []string{"kernel shadow = ground truth, one shadow per measured Watcher", "part (3) polls len(Events); if the count is never reached the goroutine dump decides (reader idle in read(2) => events were dropped), a busy reader is inconclusive"},
		Batches:     func(t string) int { return map[string]int{"quick": 12, "thorough": 48}[t] },
		MustObserve: []string{"capacities_checked", "measured_watchers", "interfering_watcher_actions", "absorb_cases", "events_received", "fd_reuse_cases", "overflow_neighbour_cases", "quiet_neighbour_cases"},
		Run:         runC14,
	})
}

func runC14(c *core.Ctx) {
	if c.Batch == 0 {
		c14Caps(c)
	}
	n := c.Pick(12, 60)
	for i := 0; i < n; i++ {
		rng, ok := c.CaseRng(i, "k watchers, one driver")
		if !ok {
			continue
		}
		dir, done := caseDir(c, i)
		c14Multi(c, rng, dir, i)
		done()
	}
	m := c.Pick(6, 24)
	for i := 0; i < m; i++ {
		rng, ok := c.CaseRng(2000+i, "absorb without consumer")
		if !ok {
			continue
		}
		dir, done := caseDir(c, 2000+i)
		c14Absorb(c, rng, dir, i)
		done()
	}
	for i := 0; i < c.Pick(6, 40); i++ {
		rng, ok := c.CaseRng(4000+i, "close with the reader mid-batch, descriptor number reused")
		if !ok {
			continue
		}
		dir, done := caseDir(c, 4000+i)
		c14FdReuse(c, rng, dir, i)
		done()
	}
	if c.Batch < 4 && c.Only < 0 {
		when := []string{"1", "2", "1..3", "2+2"}[c.Batch]
		if _, ok := c.CaseRng(8000, "neighbours created after an injected read error when="+when); ok {
			faultNeighbours = true
			r, inj, ok := runFault(c, when)
			faultNeighbours = false
			if ok {
				c.Count("read_error_neighbour_sessions", 1)
				c.Count("neighbours_created_after_a_read_error", int64(r.Neighbours))
				c.Eval(1)
				c.Distinct("fault-neighbours", when)
				if r.NeighbourTimeouts > 0 {
					c.Inconclusive(fmt.Sprintf("read-error neighbours: %d of %d neighbours did not deliver their sentinel within the cap; not judged", r.NeighbourTimeouts, r.Neighbours))
				}
				if len(r.NeighbourProblems) > 0 {
					c.Violate("watcher-depends-on-another-watchers-read-error", fmt.Sprintf("after %d injected read errors on one Watcher (EIO, when=%s), %d Watchers created afterwards on their own directories: %v", inj, when, r.Neighbours, r.NeighbourProblems), r)
				}
			}
		}
	}
	for i := 0; i < c.Pick(6, 40); i++ {
		rng, ok := c.CaseRng(7000+i, "API calls of other Watchers are not filesystem activity")
		if !ok {
			continue
		}
		dir, done := caseDir(c, 7000+i)
		c14QuietNeighbours(c, rng, dir, i)
		done()
	}
	if c.Batch%2 == 1 {
		for i := 0; i < 2; i++ {
			rng, ok := c.CaseRng(5000+i, "overflow error pending at Close, neighbours being created")
			if !ok {
				continue
			}
			dir, done := caseDir(c, 5000+i)
			c14OverflowNeighbours(c, rng, dir, i)
			done()
		}
	}
	for i := 0; i < m; i++ {
		rng, ok := c.CaseRng(3000+i, "absorb identical events")
		if !ok {
			continue
		}
		dir, done := caseDir(c, 3000+i)
		c14AbsorbIdentical(c, rng, dir, i)
		done()
	}
}

func c14Caps(c *core.Ctx) {
	if _, ok := c.CaseRng(9000, "capacities"); !ok {
		return
	}
	w, err := fsnotify.NewWatcher()
	if err != nil {
		c.Broken(err.Error())
		return
	}
	if cap(w.Events) != 0 {
		c.Violate("capacity", fmt.Sprintf("NewWatcher: cap(Events)=%d, platform default on Linux is 0", cap(w.Events)), nil)
	}
	w.Close()
	c.Count("capacities_checked", 1)
	sizes := []uint{0, 1, 2, 3, 4, 8, 16, 32, 64, 100, 128, 256, 512, 1024, 2048, 4096, 8192, 16384, 32768, 65536}
	for _, sz := range sizes {
		w, err := fsnotify.NewBufferedWatcher(sz)
		if err != nil {
			c.Broken(err.Error())
			return
		}
		if cap(w.Events) != int(sz) {
			c.Violate("capacity", fmt.Sprintf("NewBufferedWatcher(%d): cap(Events)=%d", sz, cap(w.Events)), sz)
		}
		w.Close()
		c.Count("capacities_checked", 1)
		c.Distinct("cap", sz)
	}
	c.Eval(len(sizes) + 1)
}

func c14Multi(c *core.Ctx, rng *rand.Rand, dir string, idx int) {
	base := filepath.Join(dir, "t")
	sizes := []int{-1, 0, 1, 2, 4, 16, 64, 256, 1024, 4096, 65536}
	k := 2 + rng.Intn(3)
	var ss []*twin.Session
	defer func() {
		for _, s := range ss {
			s.Close()
		}
	}()
	var cfgs []int
	for j := 0; j < k; j++ {
		sz := sizes[rng.Intn(len(sizes))]
		s, err := twin.NewSessionAt(base, filepath.Join(dir, fmt.Sprintf("sent%d", j)), sz)
		if err != nil {
			c.Broken(err.Error())
			return
		}
		ss = append(ss, s)
		cfgs = append(cfgs, sz)
		c.Hist("measured_buffer_sizes", fmt.Sprint(sz), 1)
	}
	c.Count("measured_watchers", int64(k))
	os.Chdir(base)
	dirs := []string{"d0", "d1", "d2"}
	for _, d := range dirs {
		os.Mkdir(d, 0o755)
	}
	reps := make([]twin.Report, k)
	for j, s := range ss {
		for _, d := range dirs[:2+rng.Intn(2)] {
			s.AddStrict(&reps[j], d)
		}
	}
	// interfering watchers
	type intf struct {
		w    *fsnotify.Watcher
		done chan struct{}
	}
	var imu sync.Mutex
	var others []*intf
	newOther := func() {
		sz := rng.Intn(3) * 8
		w, err := fsnotify.NewBufferedWatcher(uint(sz))
		if err != nil {
			return
		}
		o := &intf{w, make(chan struct{})}
		go func() {
			defer close(o.done)
			ev, er := w.Events, w.Errors
			for ev != nil || er != nil {
				select {
				case _, ok := <-ev:
					if !ok {
						ev = nil
					}
				case _, ok := <-er:
					if !ok {
						er = nil
					}
				}
			}
		}()
		imu.Lock()
		others = append(others, o)
		imu.Unlock()
	}
	for j := 0; j < 1+rng.Intn(4); j++ {
		newOther()
	}
	defer func() {
		for _, o := range others {
			o.w.Close()
			<-o.done
		}
	}()
	names := twin.Names(rng, 5, idx%3 == 0) // every third run: names at the record-padding boundaries (15/16, 239/240, 255)
	steps := c.Pick(150, 400)
	drainAll := func(desc string) {
		for _, s := range ss[1:] {
			s.Step(desc)
		}
	}
	s0 := ss[0]
	for st := 0; st < steps; st++ {
		p := filepath.Join(dirs[rng.Intn(3)], names[rng.Intn(len(names))])
		q := filepath.Join(dirs[rng.Intn(3)], names[rng.Intn(len(names))])
		switch rng.Intn(12) {
		case 0, 1:
			s0.Creat(p)
			drainAll("creat " + p)
		case 2:
			// Write = open, write, close: keep the shadows in step after each syscall
			fd, err := unix.Open(p, unix.O_WRONLY|unix.O_APPEND, 0)
			if err == nil {
				unix.Write(fd, []byte("x"))
				s0.Step("write " + p)
				drainAll("write " + p)
				unix.Close(fd)
			}
		case 3:
			s0.Chmod(p, 0o640)
			drainAll("chmod " + p)
		case 4, 5:
			s0.Unlink(p)
			drainAll("unlink " + p)
		case 6, 7:
			s0.Rename(p, q)
			drainAll("rename " + p + " " + q)
		case 8:
			j := rng.Intn(k)
			ss[j].Pause(true)
		case 9, 10: // interfering activity
			imu.Lock()
			c.Count("interfering_watcher_actions", 1)
			if len(others) > 0 {
				o := others[rng.Intn(len(others))]
				switch rng.Intn(4) {
				case 0:
					o.w.Add(dirs[rng.Intn(3)])
				case 1:
					o.w.Remove(dirs[rng.Intn(3)])
				case 2:
					o.w.Add(p)
				case 3:
					o.w.Close()
					<-o.done
					for x := range others {
						if others[x] == o {
							others = append(others[:x], others[x+1:]...)
							break
						}
					}
					imu.Unlock()
					newOther()
					imu.Lock()
				}
			}
			imu.Unlock()
		case 11:
			if rng.Intn(4) == 0 {
				for j, s := range ss {
					s.Sync(&reps[j], true)
				}
			}
		}
	}
	total := 0
	for j, s := range ss {
		s.Sync(&reps[j], true)
		total += reps[j].Received
		for _, d := range reps[j].Diffs {
			c.Violate("stream-depends-on-configuration", fmt.Sprintf("watcher %d (buffer %d, %d other measured, interfering watchers present) delivered a stream different from the kernel log: %s; tail %v", j, cfgs[j], k-1, d.Diff, d.Log), d)
		}
		if reps[j].Hang != "" {
			// decided on what was received, not on the clock: a measured Watcher that stalls AND has put
			// values other than the overflow error on Errors differs from the kernel log
			var es []string
			for _, e := range reps[j].Errors {
				if e != fsnotify.ErrEventOverflow.Error() {
					es = append(es, e)
				}
			}
			if len(es) > 0 {
				c.Violate("stalled-with-errors", fmt.Sprintf("watcher %d (buffer %d) never delivered its sentinel and put %v on Errors; history tail %v", j, cfgs[j], es, reps[j].HangLog), nil)
			} else {
				c.Inconclusive("barrier watchdog: " + hangClass(reps[j].Hang))
			}
		}
	}
	c.Count("events_received", int64(total))
	c.Eval(1)
	if total > 0 {
		c.Distinct("multi", c.Batch, idx, cfgs)
	}
	if idx == 0 {
		c.Sample(map[string]interface{}{"measured_buffer_sizes": cfgs, "history_tail": s0.Tail(10), "events_per_watcher": reps[0].Received})
	}
}

func c14Absorb(c *core.Ctx, rng *rand.Rand, dir string, idx int) {
	sizes := []int{1, 2, 4, 16, 64, 256, 1024, 4096, 16384}
	sz := sizes[(idx+c.Batch)%len(sizes)]
	if !c.Thorough() && sz > 4096 {
		sz = 4096
	}
	w, err := fsnotify.NewBufferedWatcher(uint(sz))
	if err != nil {
		c.Broken(err.Error())
		return
	}
	defer w.Close()
	d := filepath.Join(dir, "d")
	os.MkdirAll(d, 0o755)
	if err := w.Add(d); err != nil {
		c.Broken(err.Error())
		return
	}
	n := sz
	if rng.Intn(2) == 0 && sz > 1 {
		n = 1 + rng.Intn(sz)
	}
	var want []string
	for i := 0; i < n; i++ {
		p := filepath.Join(d, fmt.Sprintf("f%06d", i))
		fd, err := unix.Open(p, unix.O_CREAT|unix.O_EXCL|unix.O_WRONLY, 0o644)
		if err == nil {
			unix.Close(fd)
		}
		want = append(want, p)
	}
	c.Count("absorb_cases", 1)
	c.Hist("absorb_capacity", fmt.Sprint(sz), 1)
	c.Eval(1)
	deadline := time.Now().Add(twin.WatchdogTimeout)
	for len(w.Events) < n && time.Now().Before(deadline) {
		time.Sleep(200 * time.Microsecond)
	}
	if len(w.Events) < n {
		dump := core.AllStacks()
		cls := hangClass(dump)
		if cls == "reader-idle-event-never-delivered" || cls == "reader-parked-in-send" {
			c.Violate("buffer-did-not-absorb", fmt.Sprintf("NewBufferedWatcher(%d), no consumer, %d distinct creates: only %d events buffered and the reader is %s", sz, n, len(w.Events), cls), dumpExcerpt(dump))
		} else {
			c.Inconclusive(fmt.Sprintf("absorb: %d/%d buffered at the watchdog, reader state %s", len(w.Events), n, cls))
		}
		return
	}
	// delivered intact later
	for i := 0; i < n; i++ {
		select {
		case e := <-w.Events:
			if e.Name != want[i] || e.Op&fsnotify.Create == 0 {
				c.Violate("buffered-events-not-intact", fmt.Sprintf("event %d drained from the buffer is %v, want Create %q", i, e, want[i]), nil)
				return
			}
		default:
			c.Violate("buffered-events-not-intact", fmt.Sprintf("buffer held %d events, only %d could be drained", n, i), nil)
			return
		}
	}
	c.Count("events_received", int64(n))
	c.Distinct("absorb", sz, n)
	_ = strings.Join
}

// c14AbsorbIdentical: cap+1 IDENTICAL events (writes to one file), each generated only after the
// library has read the previous one out of the kernel queue (FIONREAD on its inotify descriptor
// is 0), so the kernel cannot have merged them: all cap+1 must be delivered, whatever the buffer.
func c14AbsorbIdentical(c *core.Ctx, rng *rand.Rand, dir string, idx int) {
	sizes := []int{0, 1, 2, 3, 8, 64, 256}
	sz := sizes[(idx+c.Batch)%len(sizes)]
	w, err := fsnotify.NewBufferedWatcher(uint(sz))
	if err != nil {
		c.Broken(err.Error())
		return
	}
	defer w.Close()
	d := filepath.Join(dir, "d")
	os.MkdirAll(d, 0o755)
	f := filepath.Join(d, "same")
	os.WriteFile(f, nil, 0o644)
	if err := w.Add(d); err != nil {
		c.Broken(err.Error())
		return
	}
	fd := fsnotify.VerifInotifyFd(w)
	fh, err := os.OpenFile(f, os.O_WRONLY|os.O_APPEND, 0)
	if err != nil {
		c.Broken(err.Error())
		return
	}
	defer fh.Close()
	n := sz + 1
	for i := 0; i < n; i++ {
		fh.Write([]byte("x"))
		// wait until the library has taken it out of the kernel queue (bounded; logical condition)
		emptied := false
		for p := 0; p < 200000; p++ {
			if q, err := unix.IoctlGetInt(fd, unix.TIOCINQ); err == nil && q == 0 {
				emptied = true
				break
			}
			time.Sleep(50 * time.Microsecond)
		}
		if !emptied {
			c.Inconclusive(fmt.Sprintf("identical-absorb: kernel queue not drained by the reader after write %d of %d (buffer %d)", i+1, n, sz))
			return
		}
	}
	c.Count("absorb_identical_cases", 1)
	c.Eval(1)
	got := 0
	idle := 0
	for idle < 3 {
		select {
		case e := <-w.Events:
			if e.Name == f && e.Op&fsnotify.Write != 0 {
				got++
			}
			idle = 0
		case <-time.After(30 * time.Millisecond):
			if q, _ := unix.IoctlGetInt(fd, unix.TIOCINQ); q == 0 {
				idle++
			}
		}
	}
	c.Count("events_received", int64(got))
	c.Distinct("absorb-identical", sz)
	if got != n {
		c.Violate("identical-events-dropped", fmt.Sprintf("NewBufferedWatcher(%d): %d writes to one file, each made only after the previous notification had been read out of the kernel queue (so none could be merged there); %d Write events delivered", sz, n, got), nil)
	}
}

// c14FdReuse: a Watcher is closed while its reader goroutine is between two records of a batch (the reader is
// held at the existing yield point at the entry of handleEvent - a point where the scheduler may preempt it, no lock
// held). Close releases the descriptor NUMBER; a Watcher created next gets the same number and its watch
// descriptors start at 1 again. Whatever the closed Watcher's reader still does with its remembered number
// (inotify_rm_watch for a renamed path, inotify_add_watch in recursive mode) then hits the OTHER Watcher.
// Oracle: the second Watcher's kernel marks, WatchList and event stream are those of its own history.
func c14FdReuse(c *core.Ctx, rng *rand.Rand, dir string, idx int) {
	base := filepath.Join(dir, "t")
	os.MkdirAll(base, 0o755)
	var armed, parkedOnce int32
	parked := make(chan struct{})
	release := make(chan struct{})
	fsnotify.VerifSetHooks(&fsnotify.VerifHooks{Point: func(name string, n int) {
		if name == "inotify.handle" && atomic.CompareAndSwapInt32(&armed, 1, 0) {
			atomic.StoreInt32(&parkedOnce, 1)
			close(parked)
			<-release
		}
	}})
	defer fsnotify.VerifSetHooks(nil)
	bufA := []int{0, 1, 64, 4096}[rng.Intn(4)]
	A, err := fsnotify.NewBufferedWatcher(uint(bufA))
	if err != nil {
		c.Broken(err.Error())
		return
	}
	go func() {
		for range A.Errors {
		}
	}()
	go func() {
		for range A.Events {
		}
	}()
	// A watches nA files; the victim record is the rename of the one with watch descriptor k
	nA := 2 + rng.Intn(4)
	var af []string
	for i := 0; i < nA; i++ {
		p := filepath.Join(base, fmt.Sprint("a", i))
		os.WriteFile(p, nil, 0o644)
		if err := A.Add(p); err != nil {
			c.Broken(err.Error())
			return
		}
		af = append(af, p)
	}
	k := rng.Intn(nA)
	fdA := fsnotify.VerifInotifyFd(A)
	atomic.StoreInt32(&armed, 1)
	os.Rename(af[k], af[k]+".moved") // IN_MOVE_SELF for A's watch descriptor k+1
	select {
	case <-parked:
	case <-time.After(twin.WatchdogTimeout):
		close(release)
		A.Close()
		c.Inconclusive("fd-reuse: the reader never reached the yield point")
		return
	}
	closed := make(chan struct{})
	go func() { A.Close(); close(closed) }()
	// wait until A's descriptor number is free again (Close has closed the file; it now waits for the reader)
	free := false
	for p := 0; p < 200000; p++ {
		if l, err := os.Readlink(fmt.Sprintf("/proc/self/fd/%d", fdA)); err != nil || l != "anon_inode:inotify" {
			free = true
			break
		}
		time.Sleep(50 * time.Microsecond)
	}
	if !free {
		close(release)
		<-closed
		c.Inconclusive("fd-reuse: Close did not release the descriptor while the reader was held")
		return
	}
	B, err := fsnotify.NewWatcher()
	if err != nil {
		close(release)
		c.Broken(err.Error())
		return
	}
	defer B.Close()
	var bmu sync.Mutex
	var bev []fsnotify.Event
	bdone := make(chan struct{})
	go func() {
		defer close(bdone)
		ev, er := B.Events, B.Errors
		for ev != nil || er != nil {
			select {
			case e, ok := <-ev:
				if !ok {
					ev = nil
					continue
				}
				bmu.Lock()
				bev = append(bev, e)
				bmu.Unlock()
			case _, ok := <-er:
				if !ok {
					er = nil
				}
			}
		}
	}()
	sameNumber := fsnotify.VerifInotifyFd(B) == fdA
	var bf []string
	for i := 0; i < nA+1; i++ {
		p := filepath.Join(base, fmt.Sprint("b", i))
		os.WriteFile(p, nil, 0o644)
		if err := B.Add(p); err != nil {
			close(release)
			c.Broken(err.Error())
			return
		}
		bf = append(bf, p)
	}
	sd := filepath.Join(base, "bs")
	os.Mkdir(sd, 0o755)
	B.Add(sd)
	close(release) // the closed Watcher's reader goes on with its batch
	select {
	case <-closed:
	case <-time.After(twin.WatchdogTimeout):
		c.Inconclusive("fd-reuse: Close of the first Watcher did not return: " + hangClass(core.AllStacks()))
		return
	}
	c.Count("fd_reuse_cases", 1)
	if sameNumber {
		c.Count("fd_reuse_second_watcher_got_the_same_descriptor_number", 1)
	}
	// B's own history: one write per watched file, then a sentinel
	for _, p := range bf {
		fd, err := unix.Open(p, unix.O_WRONLY|unix.O_APPEND, 0)
		if err == nil {
			unix.Write(fd, []byte("x"))
			unix.Close(fd)
		}
	}
	sent := filepath.Join(sd, "sentinel")
	os.WriteFile(sent, nil, 0o644)
	ok := false
	for p := 0; p < 400000 && !ok; p++ {
		bmu.Lock()
		for _, e := range bev {
			if e.Name == sent {
				ok = true
			}
		}
		bmu.Unlock()
		if !ok {
			time.Sleep(50 * time.Microsecond)
		}
	}
	if !ok {
		c.Inconclusive("fd-reuse: second Watcher's sentinel not delivered: " + hangClass(core.AllStacks()))
		return
	}
	marks, _ := twin.KernelMarks(fsnotify.VerifInotifyFd(B))
	l := B.WatchList()
	writes := map[string]int{}
	bmu.Lock()
	for _, e := range bev {
		if e.Op&fsnotify.Write != 0 {
			writes[e.Name]++
		}
	}
	bmu.Unlock()
	var missing []string
	for _, p := range bf {
		if writes[p] == 0 {
			missing = append(missing, filepath.Base(p))
		}
	}
	c.Eval(1)
	c.Distinct("fd-reuse", bufA, nA, k, sameNumber)
	if len(marks) != len(bf)+1 || len(l) != len(bf)+1 || len(missing) > 0 {
		c.Violate("other-watcher-lost-a-watch-when-one-was-closed", fmt.Sprintf("Watcher A (buffer %d, %d watched files) was closed while its reader was between two records (the next: rename of its watch #%d); Watcher B, created right after (same descriptor number: %v), added %d files + 1 directory and then has %d kernel marks, WatchList of %d, and delivered no Write for %v",
			bufA, nA, k+1, sameNumber, len(bf), len(marks), len(l), missing), map[string]interface{}{"bufA": bufA, "nA": nA, "k": k})
	}
}

// c14OverflowNeighbours: a Watcher whose queue overflowed (Events drained, the overflow error pending, nobody on
// Errors) is closed while other Watchers are being created on other directories. Whatever the closing Watcher
// does with its descriptor, the new Watchers must be intact: still an inotify descriptor, their kernel mark in
// place, Add works, a change is reported, nothing on Errors.
func c14OverflowNeighbours(c *core.Ctx, rng *rand.Rand, dir string, idx int) {
	base := filepath.Join(dir, "t")
	os.MkdirAll(filepath.Join(base, "ov"), 0o755)
	var sends int64
	fsnotify.VerifSetHooks(&fsnotify.VerifHooks{Send: func(func() bool) {
		if callerIs("sendError") {
			atomic.AddInt64(&sends, 1) // ERROR sends only
		}
	}})
	defer fsnotify.VerifSetHooks(nil)
	A, err := fsnotify.NewBufferedWatcher(uint([]int{0, 16}[rng.Intn(2)]))
	if err != nil {
		c.Broken(err.Error())
		return
	}
	A.Add(filepath.Join(base, "ov"))
	var nev int64
	gate := make(chan struct{})
	go func() {
		<-gate
		for range A.Events {
			atomic.AddInt64(&nev, 1)
		}
	}()
	mq := maxQueued()
	for k := 0; k < mq+cap(A.Events)+2600; k++ {
		os.WriteFile(filepath.Join(base, "ov", fmt.Sprint("o", k)), nil, 0o644)
	}
	close(gate)
	reached := false
	for p := 0; p < 150000; p++ {
		ne := atomic.LoadInt64(&nev)
		if _ = ne; atomic.LoadInt64(&sends) > 0 { // a send from sendError has begun
			reached = true
			break
		}
		time.Sleep(100 * time.Microsecond)
	}
	if !reached {
		A.Close()
		c.Inconclusive("overflow neighbours: the reader never reached the overflow record")
		return
	}
	c.Count("overflow_neighbour_cases", 1)
	nB := 24
	type nb struct {
		w   *fsnotify.Watcher
		d   string
		fd  int
		err error
	}
	bs := make([]*nb, nB)
	for i := range bs {
		d := filepath.Join(base, fmt.Sprint("n", i))
		os.MkdirAll(d, 0o755)
		bs[i] = &nb{d: d}
	}
	start := make(chan struct{})
	var wg sync.WaitGroup
	wg.Add(2)
	go func() {
		defer wg.Done()
		<-start
		for j := rng.Intn(8); j > 0; j-- {
			runtimeGosched()
		}
		A.Close()
	}()
	go func() {
		defer wg.Done()
		<-start
		for _, b := range bs {
			b.w, b.err = fsnotify.NewWatcher()
			if b.err != nil {
				continue
			}
			b.fd = fsnotify.VerifInotifyFd(b.w)
			b.err = b.w.Add(b.d)
		}
	}()
	close(start)
	if ok, dump := core.WithWatchdog(twin.WatchdogTimeout, wg.Wait); !ok {
		c.Inconclusive("overflow neighbours: Close/NewWatcher did not return: " + hangClass(dump))
		return
	}
	for i, b := range bs {
		if b.w == nil {
			c.Violate("other-watcher-broken-when-one-was-closed", fmt.Sprintf("neighbour %d: NewWatcher failed while another Watcher was being closed: %v", i, b.err), nil)
			return
		}
		defer b.w.Close()
		bad := ""
		if b.err != nil {
			bad = fmt.Sprintf("Add = %v", b.err)
		} else if l, _ := os.Readlink(fmt.Sprintf("/proc/self/fd/%d", b.fd)); l != "anon_inode:inotify" {
			bad = fmt.Sprintf("its descriptor %d is now %q", b.fd, l)
		} else if marks, _ := twin.KernelMarks(b.fd); len(marks) != 1 {
			bad = fmt.Sprintf("it has %d kernel marks, 1 expected", len(marks))
		} else {
			p := filepath.Join(b.d, "probe")
			os.WriteFile(p, nil, 0o644)
			select {
			case e, ok := <-b.w.Events:
				if !ok || e.Name != p {
					bad = fmt.Sprintf("instead of the Create of its probe it delivered %v (open=%v)", e, ok)
				}
			case e := <-b.w.Errors:
				bad = fmt.Sprintf("it put %v on Errors", e)
			case <-time.After(twin.WatchdogTimeout):
				bad = "silent" // with the mark in place and the descriptor intact this cannot be a lost wakeup: inconclusive
				c.Inconclusive(fmt.Sprintf("overflow neighbours: neighbour %d stayed silent", i))
				return
			}
		}
		if bad != "" {
			c.Violate("other-watcher-broken-when-one-was-closed", fmt.Sprintf("a Watcher with a pending overflow error was closed while %d Watchers were being created on other directories: neighbour %d: %s", nB, i, bad), nil)
			return
		}
	}
	c.Eval(1)
	c.Distinct("overflow-neighbours", idx, c.Batch)
}

// c14QuietNeighbours: the API calls of OTHER Watchers on the same paths are not filesystem activity. Watcher A
// watches a directory and a file in it with every operation the backend knows (including the Linux-only
// Open/Read/CloseWrite/CloseRead, through the hook); then other Watchers are created, Add the same directory and
// file (several spellings), Remove them, are closed - and the driver itself touches nothing. A must deliver
// nothing at all until the driver's one mkdir, and then exactly that Create.
func c14QuietNeighbours(c *core.Ctx, rng *rand.Rand, dir string, idx int) {
	base := filepath.Join(dir, "t")
	d := filepath.Join(base, "d")
	f := filepath.Join(d, "f")
	os.MkdirAll(d, 0o755)
	os.WriteFile(f, []byte("x"), 0o644)
	A, err := fsnotify.NewBufferedWatcher(256)
	if err != nil {
		c.Broken(err.Error())
		return
	}
	defer A.Close()
	all := fsnotify.Create | fsnotify.Write | fsnotify.Remove | fsnotify.Rename | fsnotify.Chmod |
		fsnotify.VerifUnportableOpen | fsnotify.VerifUnportableRead | fsnotify.VerifUnportableCloseWrite | fsnotify.VerifUnportableCloseRead
	if err := A.AddWith(d, fsnotify.VerifWithOps(all)); err != nil {
		c.Broken(err.Error())
		return
	}
	if err := A.AddWith(f, fsnotify.VerifWithOps(all)); err != nil {
		c.Broken(err.Error())
		return
	}
	var log []string
	for k := 0; k < 4+rng.Intn(6); k++ {
		B, err := fsnotify.NewBufferedWatcher(uint(rng.Intn(3) * 8))
		if err != nil {
			c.Broken(err.Error())
			return
		}
		go func() {
			for range B.Errors {
			}
		}()
		go func() {
			for range B.Events {
			}
		}()
		for j := 0; j < 1+rng.Intn(4); j++ {
			p := []string{d, f, d + "/", base + "/./d", d + "/../d/f"}[rng.Intn(5)]
			switch rng.Intn(3) {
			case 0, 1:
				log = append(log, fmt.Sprintf("B%d.Add(%s)=%v", k, strings.TrimPrefix(p, base), B.Add(p)))
			default:
				log = append(log, fmt.Sprintf("B%d.Remove(%s)=%v", k, strings.TrimPrefix(p, base), B.Remove(p)))
			}
		}
		B.WatchList()
		B.Close()
		log = append(log, fmt.Sprintf("B%d.Close", k))
	}
	sub := filepath.Join(d, "sub")
	os.Mkdir(sub, 0o755)
	var got []string
	deadline := time.After(twin.WatchdogTimeout)
	for done := false; !done; {
		select {
		case e := <-A.Events:
			got = append(got, e.Op.String()+" "+strings.TrimPrefix(e.Name, base))
			if e.Name == sub && e.Op&fsnotify.Create != 0 {
				done = true
			}
		case e := <-A.Errors:
			got = append(got, "ERROR "+e.Error())
		case <-deadline:
			c.Inconclusive("quiet neighbours: the Create of the driver's mkdir was not delivered: " + hangClass(core.AllStacks()))
			return
		}
	}
	c.Count("quiet_neighbour_cases", 1)
	c.Eval(1)
	c.Distinct("quiet-neighbours", idx, c.Batch)
	if len(got) != 1 {
		c.Violate("events-caused-by-another-watchers-api-calls", fmt.Sprintf("Watcher A (all operations on d and d/f) delivered %q although the only filesystem change was one mkdir; the other Watchers did %v", got, log), log)
	}
}
