package checks

import (
	"fmt"
	"math/rand"
	"os"
	"path/filepath"
	"strings"
	"sync"
	"time"

	"github.com/fsnotify/fsnotify"
	"golang.org/x/sys/unix"

	"harness/core"
	"harness/twin"
)

func init() {
	core.Register(&core.Check{
		ID:    "C14",
		Level: "exploration",
		Rule: "E-twin x k: (1) cap(Events) of NewBufferedWatcher(n) == n for n in {0,1,2,4,...,65536} and 0 for NewWatcher; (2) 2-4 measured Watchers with different buffer sizes on the same directories plus 1-4 interfering Watchers doing PRNG Add/Remove/Close/re-create, " +
			"all fed by one sequential syscall driver; every measured Watcher's stream must equal the translated kernel log (hence each other); (3) a buffered Watcher with no consumer must hold exactly n<=cap distinct events (len(Events)==n) and deliver them intact and in order when drained; and cap+1 IDENTICAL events, each generated only after the previous one was read out of the kernel queue (FIONREAD==0), must all be delivered. " +
			"distinct_nontrivial = distinct (history, watcher configuration) runs with >=1 compared event",
		Assumptions: []string{"kernel shadow = ground truth, one shadow per measured Watcher", "part (3) polls len(Events); if the count is never reached the goroutine dump decides (reader idle in read(2) => events were dropped), a busy reader is inconclusive"},
		Batches:     func(t string) int { return map[string]int{"quick": 12, "thorough": 48}[t] },
		MustObserve: []string{"capacities_checked", "measured_watchers", "interfering_watcher_actions", "absorb_cases", "events_received"},
		Run:         runC14,
	})
}

func runC14(c *core.Ctx) {
	if c.Batch == 0 {
		c14Caps(c)
	}
	n := c.Pick(12, 60)
	for i := 0; i < n; i++ {
		rng, ok := c.CaseRng(i, "k watchers, one driver")
		if !ok {
			continue
		}
		dir, done := caseDir(c, i)
		c14Multi(c, rng, dir, i)
		done()
	}
	m := c.Pick(6, 24)
	for i := 0; i < m; i++ {
		rng, ok := c.CaseRng(2000+i, "absorb without consumer")
		if !ok {
			continue
		}
		dir, done := caseDir(c, 2000+i)
		c14Absorb(c, rng, dir, i)
		done()
	}
	for i := 0; i < m; i++ {
		rng, ok := c.CaseRng(3000+i, "absorb identical events")
		if !ok {
			continue
		}
		dir, done := caseDir(c, 3000+i)
		c14AbsorbIdentical(c, rng, dir, i)
		done()
	}
}

func c14Caps(c *core.Ctx) {
	if _, ok := c.CaseRng(9000, "capacities"); !ok {
		return
	}
	w, err := fsnotify.NewWatcher()
	if err != nil {
		c.Broken(err.Error())
		return
	}
	if cap(w.Events) != 0 {
		c.Violate("capacity", fmt.Sprintf("NewWatcher: cap(Events)=%d, platform default on Linux is 0", cap(w.Events)), nil)
	}
	w.Close()
	c.Count("capacities_checked", 1)
	sizes := []uint{0, 1, 2, 3, 4, 8, 16, 32, 64, 100, 128, 256, 512, 1024, 2048, 4096, 8192, 16384, 32768, 65536}
	for _, sz := range sizes {
		w, err := fsnotify.NewBufferedWatcher(sz)
		if err != nil {
			c.Broken(err.Error())
			return
		}
		if cap(w.Events) != int(sz) {
			c.Violate("capacity", fmt.Sprintf("NewBufferedWatcher(%d): cap(Events)=%d", sz, cap(w.Events)), sz)
		}
		w.Close()
		c.Count("capacities_checked", 1)
		c.Distinct("cap", sz)
	}
	c.Eval(len(sizes) + 1)
}

func c14Multi(c *core.Ctx, rng *rand.Rand, dir string, idx int) {
	base := filepath.Join(dir, "t")
	sizes := []int{-1, 0, 1, 2, 4, 16, 64, 256, 1024, 4096, 65536}
	k := 2 + rng.Intn(3)
	var ss []*twin.Session
	defer func() {
		for _, s := range ss {
			s.Close()
		}
	}()
	var cfgs []int
	for j := 0; j < k; j++ {
		sz := sizes[rng.Intn(len(sizes))]
		s, err := twin.NewSessionAt(base, filepath.Join(dir, fmt.Sprintf("sent%d", j)), sz)
		if err != nil {
			c.Broken(err.Error())
			return
		}
		ss = append(ss, s)
		cfgs = append(cfgs, sz)
		c.Hist("measured_buffer_sizes", fmt.Sprint(sz), 1)
	}
	c.Count("measured_watchers", int64(k))
	os.Chdir(base)
	dirs := []string{"d0", "d1", "d2"}
	for _, d := range dirs {
		os.Mkdir(d, 0o755)
	}
	reps := make([]twin.Report, k)
	for j, s := range ss {
		for _, d := range dirs[:2+rng.Intn(2)] {
			s.AddStrict(&reps[j], d)
		}
	}
	// interfering watchers
	type intf struct {
		w    *fsnotify.Watcher
		done chan struct{}
	}
	var imu sync.Mutex
	var others []*intf
	newOther := func() {
		sz := rng.Intn(3) * 8
		w, err := fsnotify.NewBufferedWatcher(uint(sz))
		if err != nil {
			return
		}
		o := &intf{w, make(chan struct{})}
		go func() {
			defer close(o.done)
			ev, er := w.Events, w.Errors
			for ev != nil || er != nil {
				select {
				case _, ok := <-ev:
					if !ok {
						ev = nil
					}
				case _, ok := <-er:
					if !ok {
						er = nil
					}
				}
			}
		}()
		imu.Lock()
		others = append(others, o)
		imu.Unlock()
	}
	for j := 0; j < 1+rng.Intn(4); j++ {
		newOther()
	}
	defer func() {
		for _, o := range others {
			o.w.Close()
			<-o.done
		}
	}()
	names := twin.Names(rng, 5, false)
	steps := c.Pick(150, 400)
	drainAll := func(desc string) {
		for _, s := range ss[1:] {
			s.Step(desc)
		}
	}
	s0 := ss[0]
	for st := 0; st < steps; st++ {
		p := filepath.Join(dirs[rng.Intn(3)], names[rng.Intn(len(names))])
		q := filepath.Join(dirs[rng.Intn(3)], names[rng.Intn(len(names))])
		switch rng.Intn(12) {
		case 0, 1:
			s0.Creat(p)
			drainAll("creat " + p)
		case 2:
			// Write = open, write, close: keep the shadows in step after each syscall
			fd, err := unix.Open(p, unix.O_WRONLY|unix.O_APPEND, 0)
			if err == nil {
				unix.Write(fd, []byte("x"))
				s0.Step("write " + p)
				drainAll("write " + p)
				unix.Close(fd)
			}
		case 3:
			s0.Chmod(p, 0o640)
			drainAll("chmod " + p)
		case 4, 5:
			s0.Unlink(p)
			drainAll("unlink " + p)
		case 6, 7:
			s0.Rename(p, q)
			drainAll("rename " + p + " " + q)
		case 8:
			j := rng.Intn(k)
			ss[j].Pause(true)
		case 9, 10: // interfering activity
			imu.Lock()
			c.Count("interfering_watcher_actions", 1)
			if len(others) > 0 {
				o := others[rng.Intn(len(others))]
				switch rng.Intn(4) {
				case 0:
					o.w.Add(dirs[rng.Intn(3)])
				case 1:
					o.w.Remove(dirs[rng.Intn(3)])
				case 2:
					o.w.Add(p)
				case 3:
					o.w.Close()
					<-o.done
					for x := range others {
						if others[x] == o {
							others = append(others[:x], others[x+1:]...)
							break
						}
					}
					imu.Unlock()
					newOther()
					imu.Lock()
				}
			}
			imu.Unlock()
		case 11:
			if rng.Intn(4) == 0 {
				for j, s := range ss {
					s.Sync(&reps[j], true)
				}
			}
		}
	}
	total := 0
	for j, s := range ss {
		s.Sync(&reps[j], true)
		total += reps[j].Received
		for _, d := range reps[j].Diffs {
			c.Violate("stream-depends-on-configuration", fmt.Sprintf("watcher %d (buffer %d, %d other measured, interfering watchers present) delivered a stream different from the kernel log: %s; tail %v", j, cfgs[j], k-1, d.Diff, d.Log), d)
		}
		if reps[j].Hang != "" {
			c.Inconclusive("barrier watchdog: " + hangClass(reps[j].Hang))
		}
	}
	c.Count("events_received", int64(total))
	c.Eval(1)
	if total > 0 {
		c.Distinct("multi", c.Batch, idx, cfgs)
	}
	if idx == 0 {
		c.Sample(map[string]interface{}{"measured_buffer_sizes": cfgs, "history_tail": s0.Tail(10), "events_per_watcher": reps[0].Received})
	}
}

func c14Absorb(c *core.Ctx, rng *rand.Rand, dir string, idx int) {
	sizes := []int{1, 2, 4, 16, 64, 256, 1024, 4096, 16384}
	sz := sizes[(idx+c.Batch)%len(sizes)]
	if !c.Thorough() && sz > 4096 {
		sz = 4096
	}
	w, err := fsnotify.NewBufferedWatcher(uint(sz))
	if err != nil {
		c.Broken(err.Error())
		return
	}
	defer w.Close()
	d := filepath.Join(dir, "d")
	os.MkdirAll(d, 0o755)
	if err := w.Add(d); err != nil {
		c.Broken(err.Error())
		return
	}
	n := sz
	if rng.Intn(2) == 0 && sz > 1 {
		n = 1 + rng.Intn(sz)
	}
	var want []string
	for i := 0; i < n; i++ {
		p := filepath.Join(d, fmt.Sprintf("f%06d", i))
		fd, err := unix.Open(p, unix.O_CREAT|unix.O_EXCL|unix.O_WRONLY, 0o644)
		if err == nil {
			unix.Close(fd)
		}
		want = append(want, p)
	}
	c.Count("absorb_cases", 1)
	c.Hist("absorb_capacity", fmt.Sprint(sz), 1)
	c.Eval(1)
	deadline := time.Now().Add(twin.WatchdogTimeout)
	for len(w.Events) < n && time.Now().Before(deadline) {
		time.Sleep(200 * time.Microsecond)
	}
	if len(w.Events) < n {
		dump := core.AllStacks()
		cls := hangClass(dump)
		if cls == "reader-idle-event-never-delivered" || cls == "reader-parked-in-send" {
			c.Violate("buffer-did-not-absorb", fmt.Sprintf("NewBufferedWatcher(%d), no consumer, %d distinct creates: only %d events buffered and the reader is %s", sz, n, len(w.Events), cls), dumpExcerpt(dump))
		} else {
			c.Inconclusive(fmt.Sprintf("absorb: %d/%d buffered at the watchdog, reader state %s", len(w.Events), n, cls))
		}
		return
	}
	// delivered intact later
	for i := 0; i < n; i++ {
		select {
		case e := <-w.Events:
			if e.Name != want[i] || e.Op&fsnotify.Create == 0 {
				c.Violate("buffered-events-not-intact", fmt.Sprintf("event %d drained from the buffer is %v, want Create %q", i, e, want[i]), nil)
				return
			}
		default:
			c.Violate("buffered-events-not-intact", fmt.Sprintf("buffer held %d events, only %d could be drained", n, i), nil)
			return
		}
	}
	c.Count("events_received", int64(n))
	c.Distinct("absorb", sz, n)
	_ = strings.Join
}

// c14AbsorbIdentical: cap+1 IDENTICAL events (writes to one file), each generated only after the
// library has read the previous one out of the kernel queue (FIONREAD on its inotify descriptor
// is 0), so the kernel cannot have merged them: all cap+1 must be delivered, whatever the buffer.
func c14AbsorbIdentical(c *core.Ctx, rng *rand.Rand, dir string, idx int) {
	sizes := []int{0, 1, 2, 3, 8, 64, 256}
	sz := sizes[(idx+c.Batch)%len(sizes)]
	w, err := fsnotify.NewBufferedWatcher(uint(sz))
	if err != nil {
		c.Broken(err.Error())
		return
	}
	defer w.Close()
	d := filepath.Join(dir, "d")
	os.MkdirAll(d, 0o755)
	f := filepath.Join(d, "same")
	os.WriteFile(f, nil, 0o644)
	if err := w.Add(d); err != nil {
		c.Broken(err.Error())
		return
	}
	fd := fsnotify.VerifInotifyFd(w)
	fh, err := os.OpenFile(f, os.O_WRONLY|os.O_APPEND, 0)
	if err != nil {
		c.Broken(err.Error())
		return
	}
	defer fh.Close()
	n := sz + 1
	for i := 0; i < n; i++ {
		fh.Write([]byte("x"))
		// wait until the library has taken it out of the kernel queue (bounded; logical condition)
		emptied := false
		for p := 0; p < 200000; p++ {
			if q, err := unix.IoctlGetInt(fd, unix.TIOCINQ); err == nil && q == 0 {
				emptied = true
				break
			}
			time.Sleep(50 * time.Microsecond)
		}
		if !emptied {
			c.Inconclusive(fmt.Sprintf("identical-absorb: kernel queue not drained by the reader after write %d of %d (buffer %d)", i+1, n, sz))
			return
		}
	}
	c.Count("absorb_identical_cases", 1)
	c.Eval(1)
	got := 0
	idle := 0
	for idle < 3 {
		select {
		case e := <-w.Events:
			if e.Name == f && e.Op&fsnotify.Write != 0 {
				got++
			}
			idle = 0
		case <-time.After(30 * time.Millisecond):
			if q, _ := unix.IoctlGetInt(fd, unix.TIOCINQ); q == 0 {
				idle++
			}
		}
	}
	c.Count("events_received", int64(got))
	c.Distinct("absorb-identical", sz)
	if got != n {
		c.Violate("identical-events-dropped", fmt.Sprintf("NewBufferedWatcher(%d): %d writes to one file, each made only after the previous notification had been read out of the kernel queue (so none could be merged there); %d Write events delivered", sz, n, got), nil)
	}
}
