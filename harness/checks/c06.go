package checks

import (
	"errors"
	"fmt"
	"math/rand"
	"os"
	"path/filepath"
	"runtime"
	"strings"
	"sync"
	"sync/atomic"
	"time"

	"github.com/fsnotify/fsnotify"

	"harness/core"
	"harness/twin"
)

func init() {
	core.Register(&core.Check{
		ID:    "C06",
		Level: "exploration",
		Rule: "E-proc + child exit status: Close is injected at PRNG-chosen points of a running history (idle, mid-burst with a mutator goroutine writing into watched directories, reader parked in a blocked send, a watched path deleted and still unprocessed, a real queue overflow whose error nobody receives (Events drained first; and, in another batch, Close while the sender of the overflow error is held right before its select, released once the Watcher is marked closed), concurrently with Add/Remove/WatchList and with 1-8 other Close calls) " +
			"x consumer {both, only Events, only Errors, neither until close, stops midway} x buffer {default,0,1,16,4096} x GOMAXPROCS {1,2,4,16}, PRNG delays at the verif yield points. Oracles: the child must not die with 'send on closed channel'/'close of closed channel' (any panic is a violation); " +
			"every Close returns nil; once all Close calls have returned both channels must report closed (bounded progress; if not, the goroutine dump decides: no reader goroutine left => violated) after at most cap(Events) further values; afterwards Add => ErrClosed, Remove => nil, WatchList => nil, Close => nil, from several goroutines. " +
			"distinct_nontrivial = distinct (close point, consumer, buffer, closers, procs) cases in which events were flowing (>=1 send probed) before Close",
		Assumptions: []string{"a Close call that loses the race returns before the reader has finished, so 'after Close' is taken as 'after every concurrent Close call returned'", "'promptly' is restated as bounded progress with the dump as the deciding witness"},
		Batches:     func(t string) int { return map[string]int{"quick": 16, "thorough": 64}[t] },
		RaceBatches: func(t string) int { return map[string]int{"quick": 2, "thorough": 16}[t] },
		MustObserve: []string{"close_points", "channels_seen_closed", "post_close_api_calls", "close_with_events_in_flight", "overflow_error_pending_at_close"},
		Run:         runC06,
	})
}

func runC06(c *core.Ctx) {
	n := c.Pick(120, 600)
	if c.Race {
		n = c.Pick(60, 300)
	}
	var a apiTrack
	var st probeStats
	defer runtime.GOMAXPROCS(runtime.GOMAXPROCS(0))
	for i := 0; i < n; i++ {
		rng, ok := c.CaseRng(i, "close point")
		if !ok {
			continue
		}
		installProbeHooks(&a, &st, rng.Int63(), rng.Intn(3) > 0)
		runtime.GOMAXPROCS([]int{1, 2, 4, 16}[rng.Intn(4)])
		dir, done := caseDir(c, i)
		stop := c06Case(c, rng, dir, i, &a, &st)
		done()
		if stop {
			break
		}
	}
	fsnotify.VerifSetHooks(nil)
	c.Count("sends_probed", atomic.LoadInt64(&st.sends))
	st.points.Range(func(k, v interface{}) bool {
		c.Hist("yield_point_hits", k.(string), atomic.LoadInt64(v.(*int64)))
		return true
	})
}

func c06Case(c *core.Ctx, rng *rand.Rand, dir string, idx int, a *apiTrack, st *probeStats) (stop bool) {
	point := []string{"idle", "mid-burst", "blocked-send", "racing-api", "deleted-watch-pending"}[rng.Intn(5)]
	cons := c05consumers[rng.Intn(len(c05consumers))]
	buf := []int{-1, 0, 1, 16, 4096}[rng.Intn(5)]
	closers := 1 + rng.Intn(8)
	if idx == 3 && c.Batch%4 == 0 && !c.Race {
		// one REAL queue overflow per fourth batch: Events drained, the overflow error left pending, then Close
		point, cons = "overflow-error-pending", "only-events"
	}
	if (idx == 3 || idx == 5) && c.Batch%4 == 2 && !c.Race {
		// and one where Close comes at the very moment the last event in front of the overflow record has been
		// received: the reader is just about to deal with the overflow record
		point, cons = "overflow-close-at-last-event", "only-events"
	}
	procs := runtime.GOMAXPROCS(0)
	params := fmt.Sprintf("point=%s consumer=%s buffer=%d closers=%d procs=%d", point, cons, buf, closers, procs)
	var w *fsnotify.Watcher
	var err error
	if buf < 0 {
		w, err = fsnotify.NewWatcher()
	} else {
		w, err = fsnotify.NewBufferedWatcher(uint(buf))
	}
	if err != nil {
		c.Broken(err.Error())
		return true
	}
	capEv := cap(w.Events)
	base := filepath.Join(dir, "t")
	os.MkdirAll(base, 0o755)
	var dirs []string
	for k := 0; k < 3; k++ {
		d := filepath.Join(base, fmt.Sprint("d", k))
		os.Mkdir(d, 0o755)
		dirs = append(dirs, d)
		w.Add(d)
	}
	wf := filepath.Join(base, "watched-file")
	os.WriteFile(wf, nil, 0o644)
	w.Add(wf)
	sends0 := atomic.LoadInt64(&st.sends)
	errSends0 := atomic.LoadInt64(&st.errSends)
	var allClosed int32 // set once every Close call has returned
	var afterClose int64
	evClosed, erClosed := make(chan struct{}), make(chan struct{})
	kStop := int64(1 + rng.Intn(30))
	gate := &errGate{hit: make(chan struct{}), open: make(chan struct{})}
	var gateOnce sync.Once
	openGate := func() {
		gateOnce.Do(func() { close(gate.open) })
		atomic.StoreInt32(&gateErrorSends, 0)
	}
	defer openGate()
	var hold int32  // 1: the consumer takes nothing (overflow burst in progress)
	var gotA int64  // events taken so far
	// consumer: always notices closure (a receive-only view would never know); the
	// mode only decides whether it takes values before the Close calls return.
	go func() {
		evc, erc := w.Events, w.Errors
		var got int64
		takeEv, takeEr := cons == "both" || cons == "only-events" || cons == "stops-after-k", cons == "both" || cons == "only-errors" || cons == "stops-after-k"
		for evc != nil || erc != nil {
			ev, er := evc, erc
			if atomic.LoadInt32(&allClosed) == 0 {
				if !takeEv || (cons == "stops-after-k" && got >= kStop) {
					ev = nil
				}
				if !takeEr || (cons == "stops-after-k" && got >= kStop) {
					er = nil
				}
			}
			if atomic.LoadInt32(&hold) == 1 {
				ev, er = nil, nil
			}
			if ev == nil && er == nil {
				time.Sleep(100 * time.Microsecond)
				continue
			}
			// sampled BEFORE the receive starts: a value received with pre==1 was
			// taken after every Close call had returned
			pre := atomic.LoadInt32(&allClosed)
			select {
			case _, ok := <-ev:
				if !ok {
					close(evClosed)
					evc = nil
					continue
				}
				got++
				atomic.AddInt64(&gotA, 1)
				if pre == 1 {
					atomic.AddInt64(&afterClose, 1)
				}
			case _, ok := <-er:
				if !ok {
					close(erClosed)
					erc = nil
				}
			case <-time.After(200 * time.Microsecond):
			}
		}
	}()
	// mutator
	stopMut := make(chan struct{})
	var mutDone sync.WaitGroup
	if point == "deleted-watch-pending" {
		// a watched path is deleted and its notifications are (with a consumer that does not
		// receive) still unprocessed when Close is called: the kernel has dropped that watch already
		for k := 0; k < 1+rng.Intn(4); k++ {
			os.Chmod(wf, 0o600+os.FileMode(k))
		}
		os.Remove(wf)
		if rng.Intn(2) == 0 {
			os.RemoveAll(dirs[2])
		}
	}
	if point == "overflow-error-pending" {
		atomic.StoreInt32(&hold, 1)
		mq := maxQueued()
		g0 := atomic.LoadInt64(&gotA)
		for k := 0; k < mq+capEv+2600; k++ { // the reader takes a buffer-full and a read-full out of the kernel queue meanwhile
			os.WriteFile(filepath.Join(dirs[0], fmt.Sprint("o", k)), nil, 0o644)
		}
		atomic.StoreInt32(&hold, 0)
		// logical condition: a send that comes from sendError has begun (recognised on the call stack by the
		// Send hook) - everything in front of it has been received by then. The cap only bounds a broken run.
		for p := 0; p < 150000; p++ {
			if atomic.LoadInt64(&st.errSends) > errSends0 {
				c.Count("overflow_error_pending_at_close", 1)
				break
			}
			time.Sleep(100 * time.Microsecond)
		}
		_ = g0
	}
	if point == "overflow-close-at-last-event" {
		// whoever sends the overflow error is held right before its select (everything queued in front of it
		// has been received by then); Close is called in that state; the sender is let go once the Watcher is
		// marked closed and - if the reader gets that far without the held sender - the channels are closed
		sendGate.Store(gate)
		atomic.StoreInt32(&gateErrorSends, 1)
		atomic.StoreInt32(&hold, 1)
		mq := maxQueued()
		for k := 0; k < mq+capEv+2600; k++ { // the reader takes a buffer-full and a read-full out of the kernel queue meanwhile
			os.WriteFile(filepath.Join(dirs[0], fmt.Sprint("o", k)), nil, 0o644)
		}
		atomic.StoreInt32(&hold, 0)
		select {
		case <-gate.hit:
			c.Count("overflow_close_at_last_event", 1)
			go func() {
				for i := 0; i < 400000; i++ {
					if err := w.Add(dirs[1]); errors.Is(err, fsnotify.ErrClosed) {
						break
					}
					time.Sleep(50 * time.Microsecond)
				}
				select {
				case <-evClosed:
				case <-time.After(50 * time.Millisecond): // only bounds the wait when the held sender is the reader itself
				}
				openGate()
			}()
		case <-time.After(twin.WatchdogTimeout):
			c.Inconclusive(fmt.Sprintf("[%s] no error send was seen after the overflow burst", params))
		}
	}
	if point != "idle" && point != "deleted-watch-pending" && point != "overflow-error-pending" && point != "overflow-close-at-last-event" {
		mutDone.Add(1)
		seed := rng.Int63()
		go func() {
			defer mutDone.Done()
			r := rand.New(rand.NewSource(seed))
			for k := 0; ; k++ {
				select {
				case <-stopMut:
					return
				default:
				}
				p := filepath.Join(dirs[r.Intn(3)], fmt.Sprint("f", r.Intn(6)))
				os.WriteFile(p, []byte("x"), 0o644)
				if r.Intn(2) == 0 {
					os.Remove(p)
				}
				if k > 20000 {
					return
				}
			}
		}()
	}
	switch point {
	case "mid-burst", "racing-api":
		time.Sleep(time.Duration(rng.Intn(3000)) * time.Microsecond)
	case "deleted-watch-pending":
		time.Sleep(time.Duration(rng.Intn(2000)) * time.Microsecond)
	case "blocked-send":
		time.Sleep(time.Duration(1000+rng.Intn(3000)) * time.Microsecond) // consumer modes that do not receive park the reader
	}
	// racing API goroutines
	var racingRemoveErrClosed atomic.Bool
	var apiWG sync.WaitGroup
	stopAPI := make(chan struct{})
	if point == "racing-api" || rng.Intn(3) == 0 {
		for g := 0; g < 1+rng.Intn(3); g++ {
			apiWG.Add(1)
			seed := rng.Int63()
			go func() {
				defer apiWG.Done()
				r := rand.New(rand.NewSource(seed))
				for k := 0; k < 200; k++ {
					select {
					case <-stopAPI:
						return
					default:
					}
					d := dirs[r.Intn(3)]
					switch r.Intn(3) {
					case 0:
						a.call(func() { w.Add(d) })
					case 1:
						a.call(func() {
							if err := w.Remove(d); errors.Is(err, fsnotify.ErrClosed) {
								racingRemoveErrClosed.Store(true)
							}
						})
					default:
						a.call(func() { w.WatchList() })
					}
				}
			}()
		}
	}
	// the Close calls
	var cwg sync.WaitGroup
	var notRet int32
	var cerrs, dumps sync.Map
	for k := 0; k < closers; k++ {
		cwg.Add(1)
		delay := time.Duration(rng.Intn(300)) * time.Microsecond
		if point == "overflow-close-at-last-event" {
			delay = time.Duration(rng.Intn(3)*rng.Intn(200)) * time.Microsecond
		}
		go func(k int) {
			defer cwg.Done()
			time.Sleep(delay)
			var e error
			ok, dump := core.WithWatchdog(twin.WatchdogTimeout, func() { a.call(func() { e = w.Close() }) })
			if !ok {
				// classified here, while nobody receives yet: once every Close call is accounted for the
				// consumer starts draining both channels, which dissolves a hang that depends on consumption
				cls, d := persistentHangClass(dump)
				atomic.AddInt32(&notRet, 1)
				dumps.Store(k, cls+"\x00"+d)
			} else if e != nil {
				cerrs.Store(k, e)
			}
		}(k)
	}
	cwg.Wait()
	atomic.StoreInt32(&allClosed, 1)
	close(stopMut)
	close(stopAPI)
	c.Count("close_points", 1)
	c.Eval(1)
	flowing := atomic.LoadInt64(&st.sends) > sends0
	if flowing {
		c.Count("close_with_events_in_flight", 1)
		c.Distinct(point, cons, buf, closers, procs)
	}
	c.Hist("close_points_by_kind", point, 1)
	if notRet > 0 {
		var dump string
		dumps.Range(func(_, v interface{}) bool { dump = v.(string); return false })
		cls := dump[:strings.Index(dump, "\x00")]
		dump = dump[len(cls)+1:]
		if cls == "deadlock:send-under-lock+api-blocked" || cls == "send-under-lock" || cls == "no-reader-goroutine" || cls == "lock-leaked" || cls == "api-waits-for-reader-parked-in-send" || cls == "lock-holder-busy" {
			c.Violate("close-did-not-return", fmt.Sprintf("[%s] %d Close calls did not return (%s)", params, notRet, cls), dumpExcerpt(dump))
		} else {
			c.Inconclusive(fmt.Sprintf("[%s] Close not returned at the watchdog, dump class %s", params, cls))
		}
		return true
	}
	cerrs.Range(func(k, v interface{}) bool {
		c.Violate("close-returned-error", fmt.Sprintf("[%s] Close returned %v", params, v), nil)
		return true
	})
	// channels must close (bounded progress; the dump decides)
	closedOK := true
	for name, ch := range map[string]chan struct{}{"Events": evClosed, "Errors": erClosed} {
		select {
		case <-ch:
		case <-time.After(twin.WatchdogTimeout):
			closedOK = false
			dump := core.AllStacks()
			if cls := hangClass(dump); cls == "no-reader-goroutine" {
				c.Violate("channel-never-closed", fmt.Sprintf("[%s] %s was not closed after every Close call had returned and no reader goroutine is left to close it", params, name), dumpExcerpt(dump))
			} else {
				c.Inconclusive(fmt.Sprintf("[%s] %s not closed at the watchdog, dump class %s", params, name, cls))
			}
		}
	}
	if !closedOK {
		return true
	}
	c.Count("channels_seen_closed", 2)
	if n := atomic.LoadInt64(&afterClose); n > int64(capEv) {
		c.Violate("events-after-close", fmt.Sprintf("[%s] %d events were received after every Close call had returned; the buffer holds at most %d", params, n, capEv), nil)
	}
	c.Max("events_drained_after_close", atomic.LoadInt64(&afterClose))
	// inert API, from several goroutines
	var iwg sync.WaitGroup
	for g := 0; g < 3; g++ {
		iwg.Add(1)
		go func() {
			defer iwg.Done()
			for k := 0; k < 3; k++ {
				d := dirs[k%3]
				if err := w.Add(d); !errors.Is(err, fsnotify.ErrClosed) {
					c.Violate("add-after-close", fmt.Sprintf("[%s] Add after Close = %v, want ErrClosed", params, err), nil)
				}
				if err := w.Remove(d); err != nil {
					c.Violate("remove-after-close", fmt.Sprintf("[%s] Remove after Close = %v, want nil", params, err), nil)
				}
				if l := w.WatchList(); l != nil {
					c.Violate("watchlist-after-close", fmt.Sprintf("[%s] WatchList after Close = %v, want nil", params, l), nil)
				}
				if err := w.Close(); err != nil {
					c.Violate("close-returned-error", fmt.Sprintf("[%s] Close after Close = %v", params, err), nil)
				}
				c.Count("post_close_api_calls", 4)
			}
		}()
	}
	iwg.Wait()
	apiWG.Wait()
	if racingRemoveErrClosed.Load() {
		c.Violate("remove-returned-errclosed", fmt.Sprintf("[%s] a Remove call racing Close returned ErrClosed; Remove returns nil once the Watcher is closed (and never ErrClosed before)", params), nil)
	}
	mutDone.Wait()
	if idx < 2 {
		c.Sample(map[string]interface{}{"params": params, "events_drained_after_close": atomic.LoadInt64(&afterClose)})
	}
	return false
}
