package checks

import (
	"fmt"
	"os"
	"path/filepath"
	"strings"

	"golang.org/x/sys/unix"

	"harness/core"
	"harness/twin"
)

func init() {
	core.Register(&core.Check{
		ID:    "C02",
		Level: "exploration",
		Rule: "E-twin: the C01 program family biased towards nested unwatched/previously watched subdirectories and name re-use; a received event with no counterpart in the translated kernel log (or more copies of it than kernel notifications) is a violation, " +
			"as is any received value with Op==0 or a name that is neither a watched path nor a direct child of one. Directed histories: Remove while notifications are pending followed by changes under fresh names (none may ever arrive), " +
			"operations in a previously watched subdirectory, delete of a file watched together with its parent, and a real tmpfs unmount (IN_UNMOUNT/IN_IGNORED must not surface). " +
			"distinct_nontrivial = distinct programs/directed histories with >=1 received event and >=2 op kinds",
		Assumptions: []string{"kernel shadow = ground truth (see C01)", "notifications already pending when the harness itself removes a watch are optional (statement silent)", "mount/umount2 of a tmpfs is permitted in the sandbox (otherwise the unmount case is skipped and counted)"},
		Batches:     func(t string) int { return map[string]int{"quick": 16, "thorough": 64}[t] },
		MustObserve: []string{"events_received", "windows_compared", "post_remove_probes"},
		Run:         runC02,
	})
}

func runC02(c *core.Ctx) {
	installStatHooks()
	defer flushHookStats(c)
	n := c.Pick(30, 120)
	hangs := 0
	for i := 0; i < n && hangs < 2; i++ {
		rng, ok := c.CaseRng(i, "twin program (nested, name re-use)")
		if !ok {
			continue
		}
		cfg := twinConfig(c, rng)
		cfg.Nested = true
		cfg.NNames = 3 + rng.Intn(4) // few names: heavy re-use
		if cfg.AddBias == 0 && !cfg.StartPaused {
			cfg.AddBias = 2
		}
		cfg.KeepGoing = true
		dir, done := caseDir(c, i)
		rep := twin.RunProgram(rng, dir, cfg)
		done()
		c.Eval(1)
		reportStats(c, rep)
		if rep.Broken != "" {
			c.Broken(rep.Broken)
			continue
		}
		if nontrivial(rep) {
			c.Distinct(c.Batch, i, opKindsKey(rep))
		}
		for _, d := range rep.Diffs {
			if len(d.Diff.Extra) > 0 {
				c.Violate("phantom-event", fmt.Sprintf("received %v which no kernel notification of a watched path explains; history tail: %v", d.Diff.Extra, d.Log), d)
			}
		}
		for _, p := range rep.Predicates {
			if strings.HasPrefix(p, "op-zero") || strings.HasPrefix(p, "name-outside-watches") {
				c.Violate(strings.SplitN(p, ":", 2)[0], p+fmt.Sprintf("; history tail: %v", rep.FinalLog), rep.FinalLog)
			}
		}
		if rep.Hang != "" {
			hangs++
			c.Inconclusive("barrier watchdog fired, dump class " + hangClass(rep.Hang))
		}
		if i%8 == 0 && len(rep.Diffs) == 0 {
			c.Sample(map[string]interface{}{"config": cfg, "history_tail": rep.FinalLog, "events_received": rep.Received})
		}
	}
	// directed histories
	m := c.Pick(25, 150)
	for i := 0; i < m && hangs < 2; i++ {
		rng, ok := c.CaseRng(1000+i, "directed post-Remove / previously-watched / parent+file")
		if !ok {
			continue
		}
		dir, done := caseDir(c, 1000+i)
		func() {
			defer done()
			s, err := twin.NewSession(dir, []int{-1, 0, 1, 64}[rng.Intn(4)])
			if err != nil {
				c.Broken(err.Error())
				return
			}
			defer s.Close()
			os.Chdir(s.Base)
			var rep twin.Report
			names := twin.Names(rng, 6, rng.Intn(2) == 0)
			os.MkdirAll("d/sub", 0o755)
			os.MkdirAll("e", 0o755)
			os.WriteFile("d/file", nil, 0o644)
			dsp := twin.Spell(rng, s.Base, "d")
			subsp := twin.Spell(rng, s.Base, "d/sub")
			if s.AddStrict(&rep, dsp) != nil || s.AddStrict(&rep, subsp) != nil || s.AddStrict(&rep, "e") != nil {
				c.Broken(fmt.Sprintf("directed setup failed: %+v", rep))
				return
			}
			watchFile := rng.Intn(2) == 0
			if watchFile {
				s.AddStrict(&rep, "d/file")
			}
			paused := rng.Intn(3) > 0
			if paused {
				s.Pause(true)
			}
			// pending activity
			for k := 0; k < 1+rng.Intn(30); k++ {
				s.Creat(filepath.Join("d/sub", names[k%len(names)]))
				s.Write(filepath.Join("d/sub", names[k%len(names)]), 1)
				s.Unlink(filepath.Join("d/sub", names[k%len(names)]))
				s.Creat(filepath.Join("e", names[k%len(names)]))
			}
			if watchFile {
				s.Write("d/file", 1)
			}
			// Remove with notifications (possibly) pending: lagging window for d/sub
			cleanSub := filepath.Clean(subsp)
			err = s.W.Remove(subsp)
			s.Sh.Remove(subsp)
			s.Sh.Drain()
			s.Logf("Remove(%q)=%v [pending=%v]", subsp, err, paused)
			if err != nil {
				c.Violate("remove-result", fmt.Sprintf("Remove(%q) of a listed path returned %v", subsp, err), s.Tail(20))
			}
			// the expected stream so far may contain d/sub events that the library may legitimately drop
			optional := map[string]bool{cleanSub: true}
			// changes made AFTER Remove returned, under fresh names
			post := []string{}
			for k := 0; k < 3+rng.Intn(10); k++ {
				nm := fmt.Sprintf("post-%d-%s", k, names[k%len(names)])
				if len(nm) > 255 {
					nm = nm[:255]
				}
				p := filepath.Join("d/sub", nm)
				s.Creat(p)
				s.Write(p, 1)
				s.Chmod(p, 0o600)
				if k%2 == 0 {
					s.Rename(p, p+"r")
					s.Unlink(p + "r")
				}
				post = append(post, filepath.Join(cleanSub, nm))
				c.Count("post_remove_probes", 1)
			}
			s.Creat("e/marker-after")
			ok2, dump := s.Barrier()
			if !ok2 {
				hangs++
				c.Inconclusive("directed: barrier watchdog, class " + hangClass(dump))
				return
			}
			want, got, _ := s.Take()
			c.Count("events_received", int64(len(got)))
			c.Count("windows_compared", 1)
			for _, e := range got {
				for _, p := range post {
					if strings.HasPrefix(e.Name, p) {
						c.Violate("event-after-remove", fmt.Sprintf("event %v reports a change made after Remove(%q) had returned; history tail %v", e, subsp, s.Tail(12)), s.Tail(40))
					}
				}
				if e.Op == 0 {
					c.Violate("op-zero", fmt.Sprintf("event %v has an empty operation set", e), s.Tail(20))
				}
			}
			// everything not under the removed watch must match strictly
			filter := func(l []twin.Ev) (out []twin.Ev) {
				for _, e := range l {
					if i := strings.LastIndexByte(e.Name, '/'); e.Name == cleanSub || (i > 0 && optional[e.Name[:i]]) {
						continue
					}
					out = append(out, e)
				}
				return
			}
			d := twin.Compare(filter(want), filter(got))
			if len(d.Extra) > 0 {
				c.Violate("phantom-event", fmt.Sprintf("received %v unexplained by the kernel log; tail %v", d.Extra, s.Tail(12)), d)
			}
			// now the previously watched subdirectory: nothing from inside it, ever
			s.Sync(&rep, true)
			for k := 0; k < 5; k++ {
				p := filepath.Join("d/sub", fmt.Sprintf("later-%d", k))
				s.Creat(p)
				s.Unlink(p)
			}
			// file + parent both watched, then deleted: exactly the parent's report
			if watchFile {
				s.Unlink("d/file")
			}
			s.Sync(&rep, true)
			for _, dd := range rep.Diffs {
				if len(dd.Diff.Extra) > 0 {
					c.Violate("phantom-event", fmt.Sprintf("received %v unexplained by the kernel log; tail %v", dd.Diff.Extra, dd.Log), dd)
				}
			}
			for _, p := range rep.Predicates {
				if strings.HasPrefix(p, "op-zero") || strings.HasPrefix(p, "name-outside-watches") {
					c.Violate(strings.SplitN(p, ":", 2)[0], p, s.Tail(30))
				}
			}
			c.Eval(1)
			c.Distinct("directed", c.Batch, i)
			if i == 0 {
				c.Sample(map[string]interface{}{"directed_history": s.Tail(30)})
			}
		}()
	}
	if c.Batch == 0 {
		c02Unmount(c)
	}
}

// c02Unmount mounts a tmpfs, watches a directory and a file on it, lazily
// unmounts it: no event may surface for the unmount (#655) and the watches
// must be gone from WatchList.
func c02Unmount(c *core.Ctx) {
	_, ok := c.CaseRng(5000, "tmpfs unmount")
	if !ok {
		return
	}
	dir, done := caseDir(c, 5000)
	defer done()
	s, err := twin.NewSession(dir, -1)
	if err != nil {
		c.Broken(err.Error())
		return
	}
	defer s.Close()
	mnt := filepath.Join(s.Base, "mnt")
	os.Mkdir(mnt, 0o755)
	if err := unix.Mount("tmpfs", mnt, "tmpfs", 0, "size=1m"); err != nil {
		c.Count("unmount_cases_skipped", 1)
		c.Note("mount failed: %v", err)
		return
	}
	mounted := true
	defer func() {
		if mounted {
			unix.Unmount(mnt, unix.MNT_DETACH)
		}
	}()
	os.Mkdir(filepath.Join(mnt, "d"), 0o755)
	os.WriteFile(filepath.Join(mnt, "d", "f"), nil, 0o644)
	var rep twin.Report
	s.AddStrict(&rep, filepath.Join(mnt, "d"))
	s.AddStrict(&rep, filepath.Join(mnt, "d", "f"))
	s.Creat(filepath.Join(mnt, "d", "x"))
	s.Sync(&rep, true)
	if err := unix.Unmount(mnt, unix.MNT_DETACH); err != nil {
		c.Count("unmount_cases_skipped", 1)
		return
	}
	mounted = false
	raw := s.Step("umount -l " + mnt)
	sawUnmount := false
	for _, r := range raw {
		if r.Mask&unix.IN_UNMOUNT != 0 {
			sawUnmount = true
		}
	}
	s.Sync(&rep, true)
	c.Count("unmount_cases", 1)
	if !sawUnmount {
		c.Inconclusive("the kernel did not report IN_UNMOUNT to the shadow")
	}
	for _, d := range rep.Diffs {
		if len(d.Diff.Extra) > 0 {
			c.Violate("housekeeping-surfaced", fmt.Sprintf("unmount produced %v", d.Diff.Extra), d)
		}
	}
	for _, l := range rep.ListDiffs {
		c.Violate("unmounted-watch-still-listed", l, s.Tail(10))
	}
	c.Eval(1)
}
