package checks

import (
	"fmt"
	"math/rand"
	"os"
	"path/filepath"
	"strings"

	"harness/core"
	"harness/twin"
)

func init() {
	core.Register(&core.Check{
		ID:    "C08",
		Level: "exploration",
		Rule: "E-twin with a spelling generator: a directory (and a file) is added under each of 19 spellings (absolute, relative, ./, //, d/../d, trailing slash, /./ inside, via absolute and relative symlinks to directory and file, symlink chain, '..' followed by a symlink component), " +
			"then entries of every byte length in the padding-boundary list (1..255, all residues mod 16) and 8 shapes (ASCII, spaces, leading dot/dash, multi-byte UTF-8 cut at the byte boundary, invalid UTF-8, control characters) are created/written/chmod'ed/renamed/removed with consumer pauses, " +
			"so names are decoded at offsets across the whole 64 KiB buffer. Every received name must be byte-for-byte Clean(arg) or Clean(arg)+\"/\"+entry as the driver spelled it; with aliases the first spelling added must be used. Directed family: a directory above the watched path is renamed (watch on top, on top/sub/deep and/or top/sub/f, then top/sub moves): later events must still carry the spellings given to Add; and the same entry names in three watched directories with name-less notifications of the directories themselves in between. " +
			"distinct_nontrivial = distinct (spelling, entry name) pairs whose events were compared",
		Assumptions: []string{"the driver knows every entry name it used, so the expected name set does not depend on the harness decoding kernel buffers", "kernel shadow = ground truth for the stream comparison"},
		Batches:     func(t string) int { return map[string]int{"quick": 14, "thorough": 56}[t] },
		RaceBatches: func(t string) int { return map[string]int{"quick": 1, "thorough": 14}[t] },
		AsanBatches: func(t string) int { return map[string]int{"quick": 0, "thorough": 2}[t] },
		MustObserve: []string{"stale_parent_histories", "names_checked", "events_received", "alias_cases"},
		Run:         runC08,
	})
}

type spelling struct {
	Kind  string
	Arg   func(base, rel string) string // rel is "dir" or "file" relative to the cwd (=base)
	Chdir bool                          // the watched directory itself is the cwd (argument cleans to ".")
	Link  string                        // if set: create this symlink (relative to cwd) first, to Target
	Tgt   func(base, rel string) string
}

var spellings = []spelling{
	{Kind: "absolute", Arg: func(b, r string) string { return filepath.Join(b, r) }},
	{Kind: "relative", Arg: func(b, r string) string { return r }},
	{Kind: "dot-slash", Arg: func(b, r string) string { return "./" + r }},
	{Kind: "double-slash-abs", Arg: func(b, r string) string { return "/" + filepath.Join(b, r) }},
	{Kind: "dotdot", Arg: func(b, r string) string { return "other/../" + r }},
	{Kind: "trailing-slash", Arg: func(b, r string) string { return r + "/" }},
	{Kind: "dot-inside-abs", Arg: func(b, r string) string { return b + "/./" + r + "//" }},
	{Kind: "redundant-rel", Arg: func(b, r string) string { return "././/" + r }},
	{Kind: "abs-symlink", Arg: func(b, r string) string { return filepath.Join(b, "lnA") }, Link: "lnA", Tgt: func(b, r string) string { return filepath.Join(b, r) }},
	{Kind: "rel-symlink", Arg: func(b, r string) string { return "lnR" }, Link: "lnR", Tgt: func(b, r string) string { return r }},
	{Kind: "rel-symlink-dot-slash", Arg: func(b, r string) string { return "./lnS/" }, Link: "lnS", Tgt: func(b, r string) string { return "./" + r }},
	{Kind: "symlink-in-subdir", Arg: func(b, r string) string { return "other/lnO" }, Link: "other/lnO", Tgt: func(b, r string) string { return "../" + r }},
	{Kind: "symlink-chain", Arg: func(b, r string) string { return "lnC2" }, Link: "lnC2", Tgt: func(b, r string) string { return "lnC1" }},
	{Kind: "dotdot-then-symlink", Arg: func(b, r string) string { return "other/../lnDD" }, Link: "lnDD", Tgt: func(b, r string) string { return r }},
	{Kind: "abs-dotdot-then-symlink", Arg: func(b, r string) string { return filepath.Join(b, r) + "/../lnDA" }, Link: "lnDA", Tgt: func(b, r string) string { return r }},
	{Kind: "dot", Arg: func(b, r string) string { return "." }, Chdir: true},
	{Kind: "dot-slash-only", Arg: func(b, r string) string { return "./" }, Chdir: true},
	{Kind: "sub-dotdot", Arg: func(b, r string) string { return "inner/.." }, Chdir: true},
	{Kind: "abs-parent-symlink", Arg: func(b, r string) string { return filepath.Join(b, "lnP", r) }, Link: "lnP", Tgt: func(b, r string) string { return "." }},
}

func runC08(c *core.Ctx) {
	installStatHooks()
	defer flushHookStats(c)
	nCases := c.Pick(6, 12)
	if c.Race {
		nCases = c.Pick(3, 6)
	}
	for i := 0; i < nCases; i++ {
		rng, ok := c.CaseRng(i, "spelling x names")
		if !ok {
			continue
		}
		sp := spellings[(c.Batch+i*5)%len(spellings)]
		dir, done := caseDir(c, i)
		c08Case(c, rng, dir, sp, i)
		done()
	}
	for i := 0; i < c.Pick(4, 20); i++ {
		rng, ok := c.CaseRng(500000+i, "same entry names in several watched directories")
		if !ok {
			continue
		}
		dir, done := caseDir(c, 500000+i)
		c08Twins(c, rng, dir, i)
		done()
	}
	for i := 0; i < c.Pick(6, 30); i++ {
		rng, ok := c.CaseRng(400000+i, "a directory above the watched path is renamed")
		if !ok {
			continue
		}
		dir, done := caseDir(c, 400000+i)
		c08Stale(c, rng, dir, i)
		done()
	}
	if c.Batch%4 == 2 {
		if rng, ok := c.CaseRng(300000, "name-less flood filling a whole read buffer"); ok {
			dir, done := caseDir(c, 300000)
			namelessFlood(c, rng, dir)
			done()
		}
	}
}

func c08Case(c *core.Ctx, rng *rand.Rand, dir string, sp spelling, idx int) {
	s, err := twin.NewSession(dir, []int{-1, 0, 64, 4096}[rng.Intn(4)])
	if err != nil {
		c.Broken(err.Error())
		return
	}
	defer s.Close()
	base := s.Base
	os.Chdir(base)
	os.Mkdir("dir", 0o755)
	os.Mkdir("other", 0o755)
	os.WriteFile("file", nil, 0o644)
	os.Symlink("dir", "lnC1")
	rep := twin.Report{Names: map[string]int{}}
	add := func(rel string) (arg string, okk bool) {
		if sp.Link != "" {
			os.Remove(sp.Link)
			tgt := sp.Tgt(base, rel)
			if sp.Kind == "symlink-chain" {
				os.Remove("lnC1")
				os.Symlink(rel, "lnC1")
			}
			if err := os.Symlink(tgt, sp.Link); err != nil {
				c.Broken("symlink: " + err.Error())
				return "", false
			}
		}
		arg = sp.Arg(base, rel)
		if err := s.AddStrict(&rep, arg); err != nil && rep.Hang == "" && len(rep.Diffs) == 0 {
			c.Violate("add-failed", fmt.Sprintf("Add(%q) [%s] failed: %v", arg, sp.Kind, err), nil)
			return arg, false
		}
		return arg, true
	}
	c.Hist("spellings", sp.Kind, 1)
	D := filepath.Join(base, "dir") // primitives always use absolute paths; only the Add argument is spelled
	if sp.Chdir {
		os.Mkdir(filepath.Join(D, "inner"), 0o755)
		os.Chdir(D)
	}
	dirArg, ok := add("dir")
	if !ok {
		c08Hang(c, &rep)
		return
	}
	dclean := filepath.Clean(dirArg)
	// alias: add the same directory again under other spellings; the first one must keep naming events
	aliases := []string{filepath.Join(base, "dir"), "dir", "./dir/", "lnC1"}
	if sp.Chdir {
		aliases = []string{filepath.Join(base, "dir"), filepath.Join(base, "lnC1"), "../dir"}
	}
	// re-pointed alias: a link first added while it names ANOTHER directory, then retargeted to the
	// watched one and added again: the first spelling of the watched directory must keep naming its events
	if rng.Intn(2) == 0 {
		l2 := filepath.Join(base, "lnRepoint")
		os.Symlink(filepath.Join(base, "other"), l2)
		if err := s.AddStrict(&rep, l2); err == nil {
			os.Remove(l2)
			os.Symlink(D, l2)
			s.AddStrict(&rep, l2)
			c.Count("alias_cases", 1)
			c.Count("repointed_alias_cases", 1)
		}
	}
	nAlias := rng.Intn(3)
	for k := 0; k < nAlias; k++ {
		a := aliases[rng.Intn(len(aliases))]
		if filepath.Clean(a) == dclean {
			continue
		}
		if err := s.AddStrict(&rep, a); err != nil && rep.Hang == "" && len(rep.Diffs) == 0 {
			c.Violate("add-failed", fmt.Sprintf("alias Add(%q) failed: %v", a, err), nil)
		}
		c.Count("alias_cases", 1)
	}
	// names: a slice of the boundary lengths for this case, every shape
	expected := map[string]bool{dclean: true}
	var names []string
	nNames := c.Pick(40, 120)
	deep := rng.Intn(3) == 0
	if deep {
		nNames *= 4
	}
	for k := 0; k < nNames; k++ {
		l := twin.NameLengths[(idx*nNames+k+c.Batch*7)%len(twin.NameLengths)]
		if c.Thorough() && k%2 == 1 {
			l = 1 + (idx*131+k*17+c.Batch*29)%255
		}
		nm := twin.MakeName(rng, l, k+idx)
		if expected[dclean+"/"+nm] {
			continue
		}
		names = append(names, nm)
		expected[dclean+"/"+nm] = true
		expected[dclean+"/"+nm+"~"] = len(nm) < 255 // rename target
		c.Hist("entry_name_len_mod16", fmt.Sprint(len(nm)%16), 1)
		c.Hist("entry_name_shape", fmt.Sprint((k+idx)%8), 1)
	}
	pauseLen := []int{0, 1, 7, 64, 100000}[rng.Intn(5)]
	if deep {
		pauseLen = 100000
	}
	sincePause := 0
	for _, nm := range names {
		p := D + "/" + nm
		if pauseLen > 0 && sincePause == 0 {
			s.Pause(true)
		}
		s.Creat(p)
		s.Write(p, 1)
		s.Chmod(p, 0o600)
		if len(nm) < 255 && rng.Intn(2) == 0 {
			s.Rename(p, p+"~")
			s.Unlink(p + "~")
		} else {
			s.Unlink(p)
		}
		sincePause++
		if pauseLen > 0 && sincePause >= pauseLen {
			sincePause = 0
			s.Sync(&rep, true)
		}
	}
	s.Sync(&rep, true)
	// file watch: Name must be the cleaned argument itself
	fileArg, ok := "", false
	if sp.Kind != "trailing-slash" && sp.Kind != "dot-inside-abs" && sp.Kind != "rel-symlink-dot-slash" && !sp.Chdir {
		fileArg, ok = add("file")
	}
	if ok {
		expected[filepath.Clean(fileArg)] = true
		s.Write("file", 3)
		s.Chmod("file", 0o640)
		s.Truncate("file", 0)
		s.Sync(&rep, true)
	}
	c.Eval(1)
	rep.RawSeen, rep.MaxRaw, rep.Masks, rep.NameLens = s.Sh.RawSeen, s.Sh.MaxBatch, s.Sh.Masks, s.Sh.NameLens
	rep.Steps = len(s.Log)
	reportStats(c, &rep)
	c.Count("names_checked", int64(len(names)))
	for _, nm := range names {
		c.Distinct(sp.Kind, nm)
	}
	if rep.Broken != "" {
		c.Broken(rep.Broken)
	}
	for _, d := range rep.Diffs {
		bad := append(append([]twin.Ev{}, d.Diff.Missing...), d.Diff.Extra...)
		for _, e := range d.Diff.Extra {
			if !expected[e.Name] {
				c.Violate("name-mismatch", fmt.Sprintf("spelling %s: Add(%q): received name %q (len %d) is not Clean(arg) nor Clean(arg)+\"/\"+<an entry the driver used>; kernel-derived expectation missing %v", sp.Kind, dirArg, e.Name, len(e.Name), d.Diff.Missing), d)
			}
		}
		if len(bad) > 0 {
			c.Violate("name-stream-mismatch", fmt.Sprintf("spelling %s: Add(%q): stream differs from the kernel log: %s", sp.Kind, dirArg, d.Diff), d)
		}
	}
	for nm, n := range rep.Names {
		c.Count("received_names_checked_against_driver_names", int64(n))
		if !expected[nm] {
			c.Violate("name-mismatch", fmt.Sprintf("spelling %s: Add(%q): received name %q (len %d) is not Clean(arg) nor Clean(arg)+\"/\"+<an entry the driver used>", sp.Kind, dirArg, nm, len(nm)), s.Tail(10))
		}
	}
	for _, p := range rep.Predicates {
		if strings.HasPrefix(p, "name-outside-watches") {
			c.Violate("name-mismatch", p, rep.FinalLog)
		}
	}
	c08Hang(c, &rep)
	if idx == 0 {
		c.Sample(map[string]interface{}{"spelling": sp.Kind, "add_argument": dirArg, "expected_prefix": dclean, "entries": len(names), "example_entry": names[0], "history_tail": s.Tail(6)})
	}
}

// c08Stale: a watch keeps the name it was added under for as long as it lives - also when a directory ABOVE the
// watched path is renamed (the kernel watch follows the inode; the library cannot know the new location and
// the statement says names follow the Add argument). Watched: a directory top, and by their own paths a
// directory two levels below it and/or a file one level below it; then top/sub is renamed and things happen
// at the new location: they must be reported under the spellings given to Add.
func c08Stale(c *core.Ctx, rng *rand.Rand, dir string, idx int) {
	s, err := twin.NewSession(dir, []int{-1, 0, 64}[rng.Intn(3)])
	if err != nil {
		c.Broken(err.Error())
		return
	}
	defer s.Close()
	base := s.Base
	os.Chdir(base)
	defer os.Chdir("/")
	os.MkdirAll("top/sub/deep", 0o755)
	os.Mkdir("top/other", 0o755)
	os.WriteFile("top/sub/f", nil, 0o644)
	var rep twin.Report
	rep.Names = map[string]int{}
	expected := map[string]bool{}
	add := func(rel string) string {
		arg := twin.Spell(rng, base, rel)
		if s.AddStrict(&rep, arg) != nil {
			return ""
		}
		return filepath.Clean(arg)
	}
	top := add("top")
	var deep, file string
	if rng.Intn(3) > 0 {
		deep = add("top/sub/deep")
	}
	if deep == "" || rng.Intn(2) == 0 {
		file = add("top/sub/f")
	}
	if top == "" || (deep == "" && file == "") {
		c.Broken("setup Add failed")
		return
	}
	if rng.Intn(2) == 0 {
		s.Pause(true)
	}
	to := []string{"top/sub2", "top/other/sub"}[rng.Intn(2)]
	s.Rename("top/sub", to)
	expected[top+"/sub"], expected[top+"/sub2"], expected[top+"/other"] = true, true, true
	if deep != "" {
		s.Creat(to + "/deep/file")
		s.Write(to+"/deep/file", 2)
		s.Unlink(to + "/deep/file")
		expected[deep], expected[deep+"/file"] = true, true
	}
	if file != "" {
		s.Write(to+"/f", 1)
		s.Chmod(to+"/f", 0o600)
		expected[file] = true
	}
	s.Sync(&rep, true)
	c.Eval(1)
	c.Count("stale_parent_histories", 1)
	if rep.Received > 0 {
		c.Distinct("stale-parent", to, deep != "", file != "", idx)
	}
	for _, d := range rep.Diffs {
		c.Violate("name-stream-mismatch", fmt.Sprintf("watches added as %q %q %q, then top/sub renamed to %s: stream differs from the kernel log (names follow the Add argument): %s", top, deep, file, to, d.Diff), d)
	}
	for nm := range rep.Names {
		if !expected[nm] {
			c.Violate("name-mismatch", fmt.Sprintf("watches added as %q %q %q, then top/sub renamed to %s: received name %q is not an Add argument nor an entry below one", top, deep, file, to, nm), s.Tail(10))
		}
	}
	c08Hang(c, &rep)
}

// c08Twins: the SAME entry names in several watched directories, with name-less notifications (chmod/utimes of
// the directories themselves) in between: whatever the library keeps from one event to the next, a name must be
// built from the watch the notification belongs to and from its own entry name.
func c08Twins(c *core.Ctx, rng *rand.Rand, dir string, idx int) {
	s, err := twin.NewSession(dir, []int{-1, 0, 64}[rng.Intn(3)])
	if err != nil {
		c.Broken(err.Error())
		return
	}
	defer s.Close()
	base := s.Base
	os.Chdir(base)
	defer os.Chdir("/")
	var rep twin.Report
	rep.Names = map[string]int{}
	expected := map[string]bool{}
	dirs := []string{"da", "db", "dc"}
	names := twin.Names(rng, 3, idx%2 == 0)
	var pref []string
	for _, d := range dirs {
		os.Mkdir(d, 0o755)
		arg := twin.Spell(rng, base, d)
		if s.AddStrict(&rep, arg) != nil {
			c.Broken("setup Add failed")
			return
		}
		p := filepath.Clean(arg)
		pref = append(pref, p)
		expected[p] = true
		for _, n := range names {
			expected[p+"/"+n] = true
		}
	}
	for st := 0; st < 80; st++ {
		d := dirs[rng.Intn(len(dirs))]
		p := d + "/" + names[rng.Intn(len(names))]
		switch rng.Intn(8) {
		case 0, 1:
			s.Creat(p)
		case 2:
			s.Write(p, 1)
		case 3:
			s.Chmod(p, 0o640)
		case 4:
			s.Unlink(p)
		case 5, 6:
			s.Chmod(d, uint32(0o700+rng.Intn(0o100)|0o700)) // name-less: the directory itself
		case 7:
			s.Utimes(d)
		}
		if rng.Intn(20) == 0 {
			s.Pause(true)
		}
	}
	s.Sync(&rep, true)
	c.Eval(1)
	c.Count("same_names_in_several_directories_histories", 1)
	if rep.Received > 0 {
		c.Distinct("twins", idx, c.Batch)
	}
	for _, d := range rep.Diffs {
		c.Violate("name-stream-mismatch", fmt.Sprintf("same entry names %q in the watched directories %q with name-less notifications in between: stream differs from the kernel log: %s", names, pref, d.Diff), d)
	}
	for nm := range rep.Names {
		if !expected[nm] {
			c.Violate("name-mismatch", fmt.Sprintf("watched directories %q, entries %q: received name %q", pref, names, nm), s.Tail(10))
		}
	}
	c08Hang(c, &rep)
}

func c08Hang(c *core.Ctx, rep *twin.Report) {
	if rep.Hang == "" {
		return
	}
	if cls := hangClass(rep.Hang); cls == "sentinel-name-mangled" {
		c.Violate("name-mismatch", "an entry name was delivered mangled: "+rep.Hang, rep.HangLog)
	} else {
		c.Inconclusive("barrier watchdog: " + cls)
	}
}
