package checks

import (
	"fmt"
	"os"
	"path/filepath"
	"runtime"
	"sort"
	"strings"
	"sync"
	"sync/atomic"
	"time"

	"github.com/fsnotify/fsnotify"

	"harness/core"
	"harness/twin"
)

// removeAddRace: Remove(p) and Add(p) of one watched directory started together, with nobody receiving (the
// reader is parked, so nothing the kernel reports is processed). Once both have returned the watch set is
// whatever their order made it; reading it (WatchList L1), then letting the reader work through everything that
// is queued (sentinel barrier), then reading it again (L2) must give the same list: no API call happened in
// between, so a path that disappears or appears there was put in a state no sequential order explains.
// Also after the barrier: listed <=> a kernel mark exists for the directory, and a listed path reports a change.
func removeAddRace(c *core.Ctx, caseNo int) {
	rng, ok := c.CaseRng(caseNo, "Remove and Add of one path started together, reader parked")
	if !ok {
		return
	}
	iters := c.Pick(250, 2000)
	if c.Race {
		iters = c.Pick(100, 600)
	}
	fsnotify.VerifSetHooks(nil)
	dir, done := caseDir(c, caseNo)
	defer done()
	p := filepath.Join(dir, "p")
	sd := filepath.Join(dir, "s")
	os.MkdirAll(p, 0o755)
	os.MkdirAll(sd, 0o755)
	w, err := fsnotify.NewWatcher()
	if err != nil {
		c.Broken(err.Error())
		return
	}
	defer w.Close()
	var hold int32
	sent := make(chan string, 256)
	var chmods int64
	go func() {
		for {
			if atomic.LoadInt32(&hold) == 1 {
				time.Sleep(20 * time.Microsecond)
				continue
			}
			select {
			case e, ok := <-w.Events:
				if !ok {
					return
				}
				if filepath.Dir(e.Name) == sd {
					sent <- e.Name
				} else if e.Name == p && e.Op&fsnotify.Chmod != 0 {
					atomic.AddInt64(&chmods, 1)
				}
			case _, ok := <-w.Errors:
				if !ok {
					return
				}
			case <-time.After(50 * time.Microsecond):
			}
		}
	}()
	barrier := func(tag string) bool {
		nm := filepath.Join(sd, tag)
		os.WriteFile(nm, nil, 0o644)
		defer os.Remove(nm)
		t := time.NewTimer(twin.WatchdogTimeout)
		defer t.Stop()
		for {
			select {
			case got := <-sent:
				if got == nm {
					return true
				}
			case <-t.C:
				return false
			}
		}
	}
	w.Add(sd)
	w.Add(p)
	for it := 0; it < iters; it++ {
		atomic.StoreInt32(&hold, 1)
		os.Chmod(p, 0o755) // something for the reader to be parked on
		var wg sync.WaitGroup
		start := make(chan struct{})
		j1, j2 := rng.Intn(12), rng.Intn(12)
		var rerr, aerr error
		wg.Add(2)
		go func() {
			defer wg.Done()
			<-start
			for k := 0; k < j1; k++ {
				runtime.Gosched()
			}
			rerr = w.Remove(p)
		}()
		go func() {
			defer wg.Done()
			<-start
			for k := 0; k < j2; k++ {
				runtime.Gosched()
			}
			aerr = w.Add(p)
		}()
		close(start)
		if ok, dump := core.WithWatchdog(twin.WatchdogTimeout, wg.Wait); !ok {
			c.Inconclusive("remove/add race: calls not returned: " + hangClass(dump))
			return
		}
		l1 := w.WatchList()
		sort.Strings(l1)
		atomic.StoreInt32(&hold, 0)
		if !barrier(fmt.Sprint("b", it)) {
			c.Inconclusive("remove/add race: barrier watchdog " + hangClass(core.AllStacks()))
			return
		}
		l2 := w.WatchList()
		sort.Strings(l2)
		c.Count("remove_add_race_iterations", 1)
		if strings.Join(l1, "\x00") != strings.Join(l2, "\x00") {
			c.Violate("watch-set-changed-without-a-call", fmt.Sprintf("iteration %d: Remove(p)=%v and Add(p)=%v started together (reader parked); WatchList after both returned = %q; after the reader had worked through what was queued, with no call in between = %q", it, rerr, aerr, trimBase(l1, dir), trimBase(l2, dir)), nil)
			return
		}
		listed := false
		for _, x := range l2 {
			if x == p {
				listed = true
			}
		}
		marks, merr := twin.KernelMarks(fsnotify.VerifInotifyFd(w))
		if merr == nil && (len(marks) == 2) != listed {
			c.Violate("listed-path-without-kernel-watch", fmt.Sprintf("iteration %d: Remove(p)=%v, Add(p)=%v started together; afterwards listed=%v but the kernel holds %d marks (1 = sentinel only)", it, rerr, aerr, listed, len(marks)), nil)
			return
		}
		if listed && it%5 == 0 {
			c0 := atomic.LoadInt64(&chmods)
			os.Chmod(p, 0o750)
			if !barrier(fmt.Sprint("q", it)) {
				c.Inconclusive("remove/add race: barrier watchdog")
				return
			}
			if atomic.LoadInt64(&chmods) == c0 {
				c.Violate("listed-path-without-kernel-watch", fmt.Sprintf("iteration %d: p is listed but a chmod of it was not reported", it), nil)
				return
			}
		}
		w.Add(p) // watched again for the next round (a no-op if it already is)
		if !barrier(fmt.Sprint("r", it)) {
			c.Inconclusive("remove/add race: barrier watchdog")
			return
		}
	}
	c.Eval(1)
	c.Distinct("remove-add-race", caseNo)
}

func trimBase(l []string, base string) []string {
	var o []string
	for _, x := range l {
		o = append(o, strings.TrimPrefix(x, base+"/"))
	}
	return o
}
