package checks

import (
	"fmt"
	"math/rand"
	"os"
	"path/filepath"
	"sort"
	"strings"
	"sync"
	"time"

	"github.com/fsnotify/fsnotify"

	"harness/core"
	"harness/twin"
)

// hookStats collects what the verif yield points report.
type hookStats struct {
	mu       sync.Mutex
	reads    int64
	bytes    int64
	maxRead  int
	readHist map[string]int64
	offsets  map[int]int64 // decode offsets, bucketed by 4 KiB
	offMod16 map[int]int64
	sends    int64
	locked   int64
}

var hs = &hookStats{readHist: map[string]int64{}, offsets: map[int]int64{}, offMod16: map[int]int64{}}

func bucket(n int) string {
	switch {
	case n <= 0:
		return "<=0"
	case n <= 32:
		return "1 event"
	case n <= 256:
		return "<=256B"
	case n <= 4096:
		return "<=4KiB"
	case n <= 32768:
		return "<=32KiB"
	}
	return "<=64KiB"
}

func installStatHooks() {
	fsnotify.VerifSetHooks(&fsnotify.VerifHooks{
		Point: func(name string, n int) {
			switch name {
			case "inotify.read":
				hs.mu.Lock()
				hs.reads++
				if n > 0 {
					hs.bytes += int64(n)
				}
				if n > hs.maxRead {
					hs.maxRead = n
				}
				hs.readHist[bucket(n)]++
				hs.mu.Unlock()
			case "inotify.handle":
				hs.mu.Lock()
				hs.offsets[n/4096]++
				hs.offMod16[n%32]++
				hs.mu.Unlock()
			}
		},
	})
}

func flushHookStats(c *core.Ctx) {
	hs.mu.Lock()
	defer hs.mu.Unlock()
	c.Count("hook_reads", hs.reads)
	c.Count("hook_bytes_read", hs.bytes)
	c.Max("largest_read_bytes", int64(hs.maxRead))
	for k, v := range hs.readHist {
		c.Hist("bytes_per_read", k, v)
	}
	for k, v := range hs.offsets {
		c.Hist("decode_offset_4KiB_bucket", fmt.Sprint(k), v)
	}
	c.Max("distinct_decode_offset_4KiB_buckets", int64(len(hs.offsets)))
}

// caseDir makes a fresh directory for one case and returns a cleanup func
// that also leaves the directory (the cwd must not dangle).
func caseDir(c *core.Ctx, i int) (string, func()) {
	d := filepath.Join(c.Tmp, fmt.Sprintf("case%d", i))
	os.MkdirAll(d, 0o755)
	return d, func() {
		os.Chdir(c.Tmp)
		os.RemoveAll(d)
	}
}

func reportStats(c *core.Ctx, rep *twin.Report) {
	c.Count("primitives", int64(rep.Steps))
	c.Count("windows_compared", int64(rep.Windows))
	c.Count("events_expected", int64(rep.Expected))
	c.Count("events_received", int64(rep.Received))
	c.Count("kernel_notifications_observed", int64(rep.RawSeen))
	c.Count("adds", int64(rep.Adds))
	c.Count("removes", int64(rep.Removes))
	c.Max("max_events_pending_at_a_barrier", int64(rep.MaxPending))
	c.Max("max_notifications_from_one_syscall", int64(rep.MaxRaw))
	for m, n := range rep.Masks {
		c.Hist("native_masks_seen", twin.MaskString(m), int64(n))
	}
	for l, n := range rep.NameLens {
		c.Hist("name_length_mod16", fmt.Sprint(l%16), int64(n))
		if l >= 200 {
			c.Count("names_200_bytes_or_longer", int64(n))
		}
	}
	for k, n := range rep.OpKinds {
		c.Hist("op_kinds", k, int64(n))
	}
	c.Count("D5_late_parent_add_seen", int64(countD5(rep, "late-parent-add")))
	c.Count("D5_overwritten_by_rename_seen", int64(countD5(rep, "overwritten-by-rename")))
	c.Count("D5_parent_other_spelling_seen", int64(countD5(rep, "parent-other-spelling")))
}

func countD5(rep *twin.Report, k string) int {
	n := 0
	for _, d := range rep.D5 {
		if d.Kind == k {
			n++
		}
	}
	return n
}

func opKindsKey(rep *twin.Report) string {
	var k []string
	for n := range rep.OpKinds {
		k = append(k, n)
	}
	sort.Strings(k)
	return strings.Join(k, ",")
}

func nontrivial(rep *twin.Report) bool {
	return rep.Received > 0 && len(rep.OpKinds) >= 2 && rep.Windows > 0
}

// hangClass classifies a goroutine dump (never the clock) into a signature.
func hangClass(dump string) (sig string) {
	if strings.HasPrefix(dump, "sentinel-name-mangled") {
		return "sentinel-name-mangled"
	}
	if strings.HasPrefix(dump, "consumer ended") {
		return "channels-closed"
	}
	sendUnderLock, apiBlocked, readerInRead, readerExists, senderParked := false, false, false, false, false
	apiParkedElsewhere, holderBusy, nestedWaiter := false, false, false
	lockWaiters, lockHolders := 0, 0
	for _, g := range core.Goroutines(dump) {
		hdr := g
		if i := strings.Index(g, "\n"); i > 0 {
			hdr = g[:i]
		}
		inAPI := false
		for _, fn := range []string{"fsnotify.(*Watcher).Add", "fsnotify.(*Watcher).Remove", "fsnotify.(*Watcher).WatchList", "fsnotify.(*Watcher).Close"} {
			if strings.Contains(g, fn) {
				inAPI = true
			}
		}
		inMutex := strings.Contains(g, "sync.(*Mutex).Lock") || strings.Contains(g, "sync.(*Mutex).lockSlow")
		if inAPI && !inMutex {
			for _, st := range []string{"[chan receive", "[select", "[sync.Cond.Wait", "[semacquire", "[sync.WaitGroup.Wait", "[chan send"} {
				if strings.Contains(hdr, st) && !strings.Contains(g, "(*shared).sendE") {
					apiParkedElsewhere = true
				}
			}
		}
		if strings.Contains(g, "github.com/fsnotify/fsnotify.") {
			inCS := false
			for _, fn := range []string{"(*inotify).handleEvent", "(*inotify).AddWith", "(*inotify).Remove", "(*inotify).remove", "(*inotify).WatchList", "(*inotify).register", "(*shared).close", "(*watches)."} {
				if strings.Contains(g, fn) {
					inCS = true
				}
			}
			if strings.Contains(g, "sync.(*Mutex).Lock") || strings.Contains(g, "sync.(*Mutex).lockSlow") {
				lockWaiters++
				if strings.Contains(g, "(*inotify).newEvent") || strings.Contains(g, "(*inotify).register") || strings.Contains(g, "(*inotify).remove(") {
					nestedWaiter = true
				}
			} else if inCS {
				lockHolders++
				if (strings.Contains(hdr, "[running") || strings.Contains(hdr, "[runnable")) && !strings.Contains(g, "(*shared).sendE") {
					holderBusy = true
				}
			}
		}
		inSend := strings.Contains(g, "(*shared).sendError") || strings.Contains(g, "(*shared).sendEvent")
		if strings.Contains(g, ".readEvents") {
			readerExists = true
			if strings.Contains(g, "internal/poll.(*FD).Read") || strings.Contains(g, "poll.runtime_pollWait") {
				readerInRead = true
			}
			if inSend || strings.Contains(hdr, "[select") || strings.Contains(hdr, "[chan send") || strings.Contains(hdr, "[chan receive") {
				senderParked = true
			}
		}
		if inSend && (strings.Contains(g, "(*inotify).handleEvent") || strings.Contains(g, "(*inotify).AddWith") || strings.Contains(g, "(*inotify).remove")) {
			sendUnderLock = true
		}
		if strings.Contains(g, "sync.(*Mutex).Lock") && (strings.Contains(g, "(*inotify).AddWith") || strings.Contains(g, "(*inotify).Remove") ||
			strings.Contains(g, "(*inotify).WatchList") || strings.Contains(g, "(*shared).close") || strings.Contains(g, "(*inotify).handleEvent")) {
			apiBlocked = true
		}
	}
	switch {
	case lockWaiters >= 2 && lockHolders == 0 && nestedWaiter:
		// a goroutine waits for a second lock below a function that already holds the Watcher's lock, and
		// everybody else waits for that one: locks taken in two different orders
		return "deadlock:lock-order"
	case lockWaiters > 0 && lockHolders == 0 && !sendUnderLock:
		// goroutines wait for the Watcher's lock and no goroutine is inside any function that
		// holds it: the lock was never released by a path that already returned
		return "lock-leaked"
	case sendUnderLock:
		if apiBlocked {
			return "deadlock:send-under-lock+api-blocked"
		}
		return "send-under-lock"
	case apiParkedElsewhere && senderParked:
		// a control call waits (not for the lock, but on a channel / condition) for something only the
		// reader can do, and the reader is parked in a send nobody receives
		return "api-waits-for-reader-parked-in-send"
	case lockWaiters > 0 && holderBusy:
		return "lock-holder-busy"
	case !readerExists:
		return "no-reader-goroutine"
	case readerInRead:
		return "reader-idle-event-never-delivered"
	case senderParked:
		return "reader-parked-in-send"
	}
	return "unclassified"
}

// persistentHangClass re-samples the goroutine dump after a pause: classes that describe a state that
// could be transient on a loaded machine (a running lock holder, an API call parked on a channel) are only
// reported when two dumps 2 s apart - after the 20 s watchdog - agree.
func persistentHangClass(dump string) (string, string) {
	cls := hangClass(dump)
	if cls != "lock-holder-busy" && cls != "api-waits-for-reader-parked-in-send" {
		return cls, dump
	}
	time.Sleep(2 * time.Second)
	d2 := core.AllStacks()
	if c2 := hangClass(d2); c2 != cls {
		return "transient:" + cls, dump
	}
	return cls, d2
}

func dumpExcerpt(dump string) string {
	var keep []string
	for _, g := range core.Goroutines(dump) {
		if strings.Contains(g, "fsnotify") {
			if len(g) > 1500 {
				g = g[:1500]
			}
			keep = append(keep, g)
		}
	}
	return strings.Join(keep, "\n\n")
}

var _ = rand.Int
var _ = time.Now

func keys(m map[string]bool) []string {
	var k []string
	for p := range m {
		k = append(k, p)
	}
	sort.Strings(k)
	return k
}
