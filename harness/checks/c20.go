package checks

import (
	"fmt"
	"math/rand"
	"regexp"
	"strconv"
	"strings"
	"time"

	"github.com/fsnotify/fsnotify"

	"harness/core"
)

func init() {
	core.Register(&core.Check{
		ID:    "C20",
		Level: "exploration",
		Rule: "E-enum with a patch-applying oracle: the real ztest.Diff is run on all pairs of line sequences of length <=5 over {a,b,c} (batch 0, exhaustive) and on PRNG-generated long pairs " +
			"(repeated lines, empty lines, whitespace edges, missing final newline); its output is parsed, headers checked against bodies, hunks applied to the first text and compared with the second. " +
			"ztest.DiffMatch is run on generated templates (literals with regex metacharacters, every placeholder form) against instantiations and mutations; an independent backtracking matcher decides the expected status. " +
			"distinct_nontrivial = distinct (have,want) inputs whose result was non-empty (Diff) or whose template had >=1 placeholder (DiffMatch)",
		Assumptions: []string{"DiffMatch cases that straddle a UTC date change are discarded", "templates whose literal pieces accidentally form '%(' are not generated", "options DiffNormalizeWhitespace/DiffJSON are outside the statement and not exercised"},
		Batches:     func(t string) int { return map[string]int{"quick": 4, "thorough": 16}[t] },
		MustObserve: []string{"diff_pairs", "diff_patches_applied", "diffmatch_expected_match", "diffmatch_expected_nomatch"},
		Exhaustive:  true,
		Run:         runC20,
	})
}

func ztSplit(s string) []string {
	l := strings.SplitAfter(strings.TrimSpace(s), "\n")
	l[len(l)-1] += "\n"
	return l
}

var hunkRe = regexp.MustCompile(`^@@ -(\d+)(?:,(\d+))? \+(\d+)(?:,(\d+))? @@\n$`)

// checkDiff is the oracle for one pair; returns "" or the complaint.
func checkDiff(a, b, d string) (string, bool) {
	eq := strings.TrimSpace(a) == strings.TrimSpace(b)
	if d == "" {
		if !eq {
			return "empty result for texts that differ after trimming", false
		}
		return "", false
	}
	if eq {
		return "non-empty result for texts that are equal after trimming", false
	}
	const hdr = "\n--- have\n+++ want\n"
	if !strings.HasPrefix(d, hdr) {
		return "missing ---/+++ header", false
	}
	A, B := ztSplit(a), ztSplit(b)
	lines := strings.SplitAfter(d[len(hdr):], "\n")
	if lines[len(lines)-1] == "" {
		lines = lines[:len(lines)-1]
	}
	var out []string
	pos := 0 // next unread line of A
	outPos := 0
	i := 0
	nh := 0
	for i < len(lines) {
		m := hunkRe.FindStringSubmatch(lines[i])
		if m == nil {
			return fmt.Sprintf("expected a hunk header at output line %d, got %q", i, lines[i]), false
		}
		nh++
		num := func(s string, def int) int {
			if s == "" {
				return def
			}
			n, _ := strconv.Atoi(s)
			return n
		}
		as, al, bs, bl := num(m[1], 0), num(m[2], 1), num(m[3], 0), num(m[4], 1)
		ai := as - 1
		if al == 0 {
			ai = as
		}
		bi := bs - 1
		if bl == 0 {
			bi = bs
		}
		if ai < pos {
			return fmt.Sprintf("hunk %d starts at line %d of the first text, before the end of the previous hunk (%d)", nh, ai+1, pos), false
		}
		out = append(out, A[pos:min(ai, len(A))]...)
		if ai > len(A) {
			return fmt.Sprintf("hunk %d starts beyond the first text", nh), false
		}
		pos = ai
		outPos = len(out)
		if outPos != bi {
			return fmt.Sprintf("hunk %d header says second-text line %d but the patched text is at line %d", nh, bi+1, outPos+1), false
		}
		i++
		na, nb := 0, 0
		lead, trail := 0, 0
		seenChange := false
		for i < len(lines) && !strings.HasPrefix(lines[i], "@@ ") {
			l := lines[i]
			if len(l) < 6 {
				return fmt.Sprintf("short body line %q", l), false
			}
			pre, txt := l[:6], l[6:]
			switch pre {
			case "      ":
				if pos >= len(A) || A[pos] != txt {
					return fmt.Sprintf("hunk %d: context line %q does not match line %d of the first text", nh, txt, pos+1), false
				}
				out = append(out, txt)
				pos++
				na++
				nb++
				if !seenChange {
					lead++
				}
				trail++
			case "-have ":
				if pos >= len(A) || A[pos] != txt {
					return fmt.Sprintf("hunk %d: deleted line %q does not match line %d of the first text", nh, txt, pos+1), false
				}
				pos++
				na++
				seenChange = true
				trail = 0
			case "+want ":
				out = append(out, txt)
				nb++
				seenChange = true
				trail = 0
			default:
				return fmt.Sprintf("unknown line prefix %q", pre), false
			}
			i++
		}
		if na != al || nb != bl {
			return fmt.Sprintf("hunk %d header says -%d,+%d lines but the body has -%d,+%d", nh, al, bl, na, nb), false
		}
		if !seenChange {
			return fmt.Sprintf("hunk %d has no change", nh), false
		}
		if lead > 3 || trail > 3 {
			return fmt.Sprintf("hunk %d has %d leading / %d trailing context lines (max 3)", nh, lead, trail), false
		}
	}
	out = append(out, A[pos:]...)
	if len(out) != len(B) {
		return fmt.Sprintf("patched text has %d lines, second text has %d", len(out), len(B)), false
	}
	for k := range out {
		if out[k] != B[k] {
			return fmt.Sprintf("patched text differs from the second text at line %d: %q vs %q", k+1, out[k], B[k]), false
		}
	}
	return "", true
}

func runC20(c *core.Ctx) {
	if c.Batch == 0 {
		c20Diff(c)
		return
	}
	c20DiffMatch(c)
}

func c20Diff(c *core.Ctx) {
	rng, ok := c.CaseRng(0, "diff exhaustive + random")
	if !ok {
		return
	}
	var seqs []string
	var gen func(prefix []string, n int)
	gen = func(prefix []string, n int) {
		seqs = append(seqs, strings.Join(prefix, "\n"))
		if n == 0 {
			return
		}
		for _, l := range []string{"a", "b", "c"} {
			gen(append(append([]string{}, prefix...), l), n-1)
		}
	}
	gen(nil, 5)
	nv := 0
	one := func(a, b string) {
		d := fsnotify.VerifDiff(a, b)
		c.Res.Counters["diff_pairs"]++
		why, applied := checkDiff(a, b, d)
		if applied {
			c.Res.Counters["diff_patches_applied"]++
			c.Distinct("d", a, "\x00", b)
			if c.Res.Counters["diff_patches_applied"]%40000 == 1 {
				c.Sample(map[string]string{"have": a, "want": b, "diff": d})
			}
		}
		if why != "" {
			nv++
			if nv <= 5 {
				c.Violate("diff-oracle", fmt.Sprintf("Diff(%q, %q): %s; output %q", a, b, why, d), map[string]string{"have": a, "want": b})
			}
		}
	}
	for _, a := range seqs {
		for _, b := range seqs {
			one(a, b)
		}
	}
	c.Count("diff_exhaustive_sequences", int64(len(seqs)))
	// random long pairs
	vocab := []string{"a", "b", "c", "", "x y", "  indented", "tab\t", "dup", "dup", "dup", "@@ -1 +1 @@", "-have z", "+want z", "      ", "--- have", "é"}
	n := c.Pick(20000, 1500000)
	for i := 0; i < n; i++ {
		mk := func() []string {
			k := rng.Intn(40)
			if rng.Intn(4) == 0 {
				k = rng.Intn(200)
			}
			l := make([]string, k)
			v := 2 + rng.Intn(len(vocab)-2)
			for j := range l {
				l[j] = vocab[rng.Intn(v)]
			}
			return l
		}
		la := mk()
		var lb []string
		if rng.Intn(3) > 0 { // derive b from a by edits: realistic diffs with shared context
			lb = append([]string{}, la...)
			for e := rng.Intn(6); e >= 0 && len(lb) > 0; e-- {
				p := rng.Intn(len(lb))
				switch rng.Intn(3) {
				case 0:
					lb = append(lb[:p], lb[p+1:]...)
				case 1:
					lb[p] = vocab[rng.Intn(len(vocab))]
				default:
					lb = append(lb[:p], append([]string{vocab[rng.Intn(len(vocab))]}, lb[p:]...)...)
				}
			}
		} else {
			lb = mk()
		}
		edge := func(s string) string {
			switch rng.Intn(6) {
			case 0:
				return s + "\n"
			case 1:
				return "\n\n" + s + " \n\t"
			case 2:
				return "  " + s
			}
			return s
		}
		one(edge(strings.Join(la, "\n")), edge(strings.Join(lb, "\n")))
	}
	c.Eval(len(seqs)*len(seqs) + n)
}

// ---- DiffMatch

type dmTok struct {
	kind     string // lit any num uuid year month day
	lit      string
	min, max int // max -1 = unbounded
}

func (t dmTok) render() string {
	r := func(name string) string {
		switch {
		case t.min == 1 && t.max == -1:
			return "%(" + name + ")"
		case t.max == t.min:
			return fmt.Sprintf("%%(%s %d)", name, t.min)
		case t.max == -1:
			return fmt.Sprintf("%%(%s %d,)", name, t.min)
		}
		return fmt.Sprintf("%%(%s %d,%d)", name, t.min, t.max)
	}
	switch t.kind {
	case "lit":
		return t.lit
	case "any":
		return r("ANY")
	case "num":
		return r("NUMBER")
	case "uuid":
		return "%(UUID)"
	case "year":
		return "%(YEAR)"
	case "month":
		return "%(MONTH)"
	}
	return "%(DAY)"
}

func dmHex(b byte) bool {
	return b >= '0' && b <= '9' || b >= 'a' && b <= 'f' || b >= 'A' && b <= 'F'
}

// dmMatch: does the token list match s exactly? Independent backtracking matcher.
func dmMatch(toks []dmTok, s string, now time.Time) bool {
	if len(toks) == 0 {
		return s == ""
	}
	t := toks[0]
	switch t.kind {
	case "lit":
		return strings.HasPrefix(s, t.lit) && dmMatch(toks[1:], s[len(t.lit):], now)
	case "year", "month", "day":
		v := fmt.Sprintf("%d", now.Year())
		if t.kind == "month" {
			v = fmt.Sprintf("%02d", now.Month())
		} else if t.kind == "day" {
			v = fmt.Sprintf("%02d", now.Day())
		}
		return strings.HasPrefix(s, v) && dmMatch(toks[1:], s[len(v):], now)
	case "uuid":
		i := 0
		for k, n := range []int{8, 4, 4, 4, 12} {
			if k > 0 {
				if i >= len(s) || s[i] != '-' {
					return false
				}
				i++
			}
			for j := 0; j < n; j++ {
				if i >= len(s) || !dmHex(s[i]) {
					return false
				}
				i++
			}
		}
		return dmMatch(toks[1:], s[i:], now)
	case "any", "num":
		rs := []rune(s)
		n, off := 0, 0
		for {
			if n >= t.min && dmMatch(toks[1:], s[off:], now) {
				return true
			}
			if n >= len(rs) || (t.max != -1 && n >= t.max) {
				return false
			}
			r := rs[n]
			if r == '\n' || (t.kind == "num" && (r < '0' || r > '9')) {
				return false
			}
			off += len(string(r))
			n++
		}
	}
	return false
}

func c20DiffMatch(c *core.Ctx) {
	lits := []string{"a", "b", " ", "x.y", "a*b", "(c)", "[d]", "1", "42", "\n", "é", "^$", "+?", "{2}", "|", "\\", "%", "abc-def", "  ", "\t", "line\nline", ")", "("}
	hex := "0123456789abcdefABCDEF"
	n := c.Pick(15000, 120000)
	shown := 0
	for it := 0; it < n; it++ {
		rng, ok := c.CaseRng(it, "diffmatch")
		if !ok {
			continue
		}
		now := time.Now().UTC()
		toks := genDmToks(rng, lits)
		var want strings.Builder
		np := 0
		for _, t := range toks {
			want.WriteString(t.render())
			if t.kind != "lit" {
				np++
			}
		}
		ws := want.String()
		if strings.Count(ws, "%(") != np {
			continue // literal pieces formed an accidental placeholder opener
		}
		var have strings.Builder
		for _, t := range toks {
			switch t.kind {
			case "lit":
				have.WriteString(t.lit)
			case "any", "num":
				k := t.min
				if t.max == -1 {
					k += rng.Intn(4)
				} else if t.max > t.min {
					k += rng.Intn(t.max - t.min + 1)
				}
				for j := 0; j < k; j++ {
					if t.kind == "num" {
						have.WriteByte(byte('0' + rng.Intn(10)))
					} else {
						have.WriteString([]string{"q", "7", " ", "é", ")", "%", "\\"}[rng.Intn(7)])
					}
				}
			case "uuid":
				for k, n := range []int{8, 4, 4, 4, 12} {
					if k > 0 {
						have.WriteByte('-')
					}
					for j := 0; j < n; j++ {
						have.WriteByte(hex[rng.Intn(len(hex))])
					}
				}
			case "year":
				fmt.Fprintf(&have, "%d", now.Year())
			case "month":
				fmt.Fprintf(&have, "%02d", now.Month())
			case "day":
				fmt.Fprintf(&have, "%02d", now.Day())
			}
		}
		hs := have.String()
		mutated := false
		if rng.Intn(2) == 0 && len(hs) > 0 {
			mutated = true
			b := []rune(hs)
			i := rng.Intn(len(b))
			switch rng.Intn(3) {
			case 0:
				b = append(b[:i], b[i+1:]...)
			case 1:
				b[i] = []rune("zZ0\n-")[rng.Intn(5)]
			default:
				b = append(b[:i], append([]rune{[]rune("z5 ")[rng.Intn(3)]}, b[i:]...)...)
			}
			hs = string(b)
		}
		exp := dmMatch(toks, hs, now)
		if !mutated && !exp {
			c.Broken(fmt.Sprintf("reference matcher rejects its own instantiation: want=%q have=%q", ws, hs))
			continue
		}
		res := fsnotify.VerifDiffMatch(hs, ws)
		if time.Now().UTC().Day() != now.Day() {
			continue
		}
		c.Eval(1)
		if exp {
			c.Res.Counters["diffmatch_expected_match"]++
		} else {
			c.Res.Counters["diffmatch_expected_nomatch"]++
		}
		if np > 0 {
			c.Distinct("m", hs, "\x00", ws)
		}
		if exp != (res == "") {
			c.Violate("diffmatch-oracle", fmt.Sprintf("DiffMatch(have=%q, want=%q) returned %q; the template %s the text", hs, ws, res, map[bool]string{true: "matches", false: "does not match"}[exp]), map[string]string{"have": hs, "want": ws})
		}
		if shown < 2 && np >= 2 && !exp {
			shown++
			c.Sample(map[string]interface{}{"want": ws, "have": hs, "expected_match": exp, "result": res})
		}
	}
}

func genDmToks(rng *rand.Rand, lits []string) []dmTok {
	var toks []dmTok
	n := 1 + rng.Intn(6)
	for i := 0; i < n; i++ {
		switch rng.Intn(9) {
		case 4:
			k := []string{"any", "num"}[rng.Intn(2)]
			switch rng.Intn(4) {
			case 0:
				toks = append(toks, dmTok{kind: k, min: 1, max: -1})
			case 1:
				m := 1 + rng.Intn(4)
				toks = append(toks, dmTok{kind: k, min: m, max: m})
			case 2:
				toks = append(toks, dmTok{kind: k, min: 1 + rng.Intn(3), max: -1})
			default:
				m := 1 + rng.Intn(3)
				toks = append(toks, dmTok{kind: k, min: m, max: m + 1 + rng.Intn(3)})
			}
		case 5:
			toks = append(toks, dmTok{kind: "uuid"})
		case 6:
			toks = append(toks, dmTok{kind: []string{"year", "month", "day"}[rng.Intn(3)]})
		default:
			toks = append(toks, dmTok{kind: "lit", lit: lits[rng.Intn(len(lits))]})
		}
	}
	return toks
}
