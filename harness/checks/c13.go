package checks

import (
	"fmt"
	"math/rand"
	"os"
	"path/filepath"
	"runtime"
	"strings"
	"sync"
	"sync/atomic"
	"time"

	"github.com/fsnotify/fsnotify"
	"golang.org/x/sys/unix"

	"harness/core"
	"harness/twin"
)

func init() {
	core.Register(&core.Check{
		ID:    "C13",
		Level: "fault_enumeration",
		Rule: "E-proc conservation: thousands of create/use/close cycles over prior histories {idle, 1-40 watches, pending events nobody reads, pending error (rename-then-delete family; plus one REAL queue overflow per fourth batch with Events drained and the overflow error left pending), 1-8 concurrent Close, Close racing Add/Remove, Close while a stream of events is being consumed}, with PRNG delays at the yield point inside Close (between 'marked closed' and 'descriptor closed'); then 1500 (thorough 8000) short cycles per batch of the commonest shape - buffered Watcher, consumer receiving, a handful of events, Close; " +
			"after Close returned and both channels closed, within a bounded number of polls: number of anon_inode:inotify descriptors == baseline, the Watcher's own descriptor number no longer names an inotify instance, total descriptors == baseline, no goroutine with a readEvents frame. " +
			"History kind deleted-watch-pending (the kernel dropped a watch nobody has processed yet); the descriptor must be close-on-exec; Watchers are kept reachable until judged so no finalizer hides a leak. " +
			"Injected faults: strace EIO on the inotify read followed by Close; RLIMIT_NOFILE lowered to the number of open descriptors so the first syscall of NewWatcher/NewBufferedWatcher fails with EMFILE, repeated; descriptors and goroutines must stay flat. " +
			"distinct_nontrivial = distinct (history kind, #watches, #closers, buffer) cycles",
		Assumptions: []string{"closing the inotify instance releases its kernel marks (kernel semantics; per-user mark accounting is not readable)", "'shortly after' = within 2000 polls of 100 us after the channels closed; not reaching baseline within that is a violation only if it persists to the end of the batch"},
		Batches:     func(t string) int { return map[string]int{"quick": 16, "thorough": 32}[t] },
		RaceBatches: func(t string) int { return map[string]int{"quick": 1, "thorough": 8}[t] },
		MustObserve: []string{"fast_cycles", "cycles", "failed_newwatcher_calls", "cycles_back_at_baseline", "overflow_error_pending_at_close"},
		Run:         runC13,
	})
}

func readerGoroutines() int {
	n := 0
	for _, g := range core.Goroutines(core.AllStacks()) {
		if strings.Contains(g, "fsnotify.(*inotify).readEvents") {
			n++
		}
	}
	return n
}

func runC13(c *core.Ctx) {
	if c.Batch < len(faultWhens) && c.Only < 0 && !c.Race {
		when := faultWhens[c.Batch]
		if _, ok := c.CaseRng(9500, "close after injected read error when="+when); ok {
			if r, inj, ok := runFault(c, when); ok {
				c.Count("fault_sessions", 1)
				c.Count("reads_made_to_fail", int64(inj))
				c.Eval(1)
				c.Distinct("fault", when)
				if r.InotifyFds != 0 || r.Readers != 0 || !r.ChannelsEnded || r.CloseErr != "" {
					c.Violate("leak-after-read-error", fmt.Sprintf("after %d injected read errors (when=%s) and Close: %d inotify descriptors still open, %d reader goroutines, channels closed=%v, Close=%q", inj, when, r.InotifyFds, r.Readers, r.ChannelsEnded, r.CloseErr), r)
				}
			}
		}
	}
	rng0, ok := c.CaseRng(0, "cycles")
	if !ok {
		return
	}
	// PRNG delays at the yield point inside Close (between "marked closed" and "descriptor closed"): the reader
	// goroutine then often finishes before Close goes on - the order in which the two meet must not matter
	var sendsG int64
	var hmu sync.Mutex
	hrng := rand.New(rand.NewSource(rng0.Int63()))
	fsnotify.VerifSetHooks(&fsnotify.VerifHooks{
		Point: func(name string, n int) {
			if name != "inotify.close" {
				return
			}
			hmu.Lock()
			k, us := hrng.Intn(4), hrng.Intn(1500)
			hmu.Unlock()
			switch k {
			case 0:
				runtime.Gosched()
			case 1:
				time.Sleep(time.Duration(us) * time.Microsecond)
			}
			c.Count("close_yield_point_hits", 1)
		},
		Send: func(func() bool) {
			if callerIs("sendError") {
				atomic.AddInt64(&sendsG, 1) // counts ERROR sends only
			}
		},
	})
	defer fsnotify.VerifSetHooks(nil)
	base := filepath.Join(c.Tmp, "t")
	os.MkdirAll(base, 0o755)
	var dirs []string
	for k := 0; k < 40; k++ {
		d := filepath.Join(base, fmt.Sprint("d", k))
		os.Mkdir(d, 0o755)
		dirs = append(dirs, d)
	}
	runtime.GC()
	baseIno, baseFds, baseReaders := twin.InotifyFds(), twin.OpenFds(), readerGoroutines()
	baseGor := runtime.NumGoroutine()
	cycles := c.Pick(150, 1500)
	if c.Race {
		cycles = c.Pick(60, 400)
	}
	settle := func(what string, fd int) bool {
		for poll := 0; poll < 2000; poll++ {
			if twin.InotifyFds() == baseIno && twin.OpenFds() == baseFds && (poll%50 != 0 || readerGoroutines() == baseReaders) {
				if readerGoroutines() == baseReaders {
					c.Max("polls_needed_to_reach_baseline", int64(poll))
					return true
				}
			}
			time.Sleep(100 * time.Microsecond)
		}
		return false
	}
	for i := 0; i < cycles; i++ {
		rng := rand.New(rand.NewSource(rng0.Int63()))
		kind := []string{"idle", "watches", "pending-events", "pending-error", "concurrent-close", "close-racing-api", "deleted-watch-pending", "consumed-stream"}[rng.Intn(8)]
		if i == 5 && c.Batch%4 == 0 && !c.Race {
			// one real queue overflow per fourth batch: Events drained, the overflow error left pending
			kind = "overflow-error-pending"
		}
		buf := []int{-1, 0, 8, 4096}[rng.Intn(4)]
		var w *fsnotify.Watcher
		var err error
		if buf < 0 {
			w, err = fsnotify.NewWatcher()
		} else {
			w, err = fsnotify.NewBufferedWatcher(uint(buf))
		}
		if err != nil {
			c.Broken("NewWatcher: " + err.Error())
			return
		}
		fd := fsnotify.VerifInotifyFd(w)
		if i < 20 {
			// a descriptor a child process would inherit stays alive (with all its watches) after Close
			if fl, err := unix.FcntlInt(uintptr(fd), unix.F_GETFD, 0); err == nil {
				c.Count("cloexec_probes", 1)
				if fl&unix.FD_CLOEXEC == 0 {
					c.Violate("descriptor-inheritable", fmt.Sprintf("the Watcher's inotify descriptor %d is not close-on-exec: any child process started while it is open keeps the instance and all its kernel watches alive after Close", fd), nil)
					return
				}
			}
		}
		nw := 0
		if kind != "idle" {
			nw = 1 + rng.Intn(40)
			for k := 0; k < nw; k++ {
				w.Add(dirs[k])
			}
		}
		consume := kind != "pending-events" && kind != "pending-error" && kind != "deleted-watch-pending"
		cdone := make(chan struct{})
		var ovEvents int64
		ovSends0 := atomic.LoadInt64(&sendsG)
		ovGate := make(chan struct{})
		go func() {
			defer close(cdone)
			evc, erc := w.Events, w.Errors
			if kind == "overflow-error-pending" {
				// nothing is received until the burst is complete; then Events only, until it closes
				<-ovGate
				for range evc {
					atomic.AddInt64(&ovEvents, 1)
				}
				for range erc {
				}
				return
			}
			for evc != nil || erc != nil {
				if !consume {
					// take nothing until the channels close
					select {
					case _, ok := <-erc:
						if !ok {
							erc = nil
						} else {
							time.Sleep(time.Millisecond)
						}
						continue
					case <-time.After(50 * time.Microsecond):
					}
					// peek closure without consuming live values: a closed channel yields !ok immediately
					select {
					case _, ok := <-evc:
						if !ok {
							evc = nil
						}
					default:
					}
					continue
				}
				select {
				case _, ok := <-evc:
					if !ok {
						evc = nil
					}
				case _, ok := <-erc:
					if !ok {
						erc = nil
					}
				}
			}
		}()
		var streamStop chan struct{}
		var streamDone sync.WaitGroup
		switch kind {
		case "consumed-stream":
			// events keep coming and are consumed while Close runs: the reader is mid-batch
			streamStop = make(chan struct{})
			streamDone.Add(1)
			sd := dirs[0]
			go func() {
				defer streamDone.Done()
				p := filepath.Join(sd, "stream")
				os.WriteFile(p, nil, 0o644)
				for k := 0; ; k++ {
					select {
					case <-streamStop:
						return
					default:
					}
					os.Chmod(p, 0o600+os.FileMode(k%2))
					if k%16 == 0 {
						runtime.Gosched()
					}
				}
			}()
			time.Sleep(time.Duration(rng.Intn(500)) * time.Microsecond)
		case "pending-events", "watches":
			for k := 0; k < 1+rng.Intn(50); k++ {
				p := filepath.Join(dirs[rng.Intn(nw)], fmt.Sprint("f", k%5))
				os.WriteFile(p, nil, 0o644)
				os.Remove(p)
			}
		case "overflow-error-pending":
			mq := maxQueued()
			od := filepath.Join(base, "ov")
			os.Mkdir(od, 0o755)
			w.Add(od)
			for k := 0; k < mq+cap(w.Events)+2600; k++ {
				os.WriteFile(filepath.Join(od, fmt.Sprint("o", k)), nil, 0o644)
			}
			close(ovGate)
			// logical condition: every queued event consumed and the reader has begun one more send
			// (the overflow error; nothing else is queued). The cap only bounds a broken run.
			reached := false
			for p := 0; p < 150000; p++ {
				ne := atomic.LoadInt64(&ovEvents)
				if _ = ne; atomic.LoadInt64(&sendsG) > ovSends0 { // a send from sendError has begun
					reached = true
					break
				}
				time.Sleep(100 * time.Microsecond)
			}
			os.RemoveAll(od)
			if reached {
				c.Count("overflow_error_pending_at_close", 1)
			}
		case "deleted-watch-pending":
			f := filepath.Join(base, "dw")
			os.WriteFile(f, nil, 0o644)
			w.Add(f)
			os.Chmod(f, 0o600)
			os.Remove(f) // the kernel drops this watch; nobody has processed that yet when Close runs
		case "pending-error":
			f := filepath.Join(base, "pe")
			os.WriteFile(f, nil, 0o644)
			w.Add(f)
			os.Chmod(f, 0o600)
			os.Rename(f, f+"2")
			os.Remove(f + "2")
		}
		closers := 1
		if kind == "concurrent-close" || rng.Intn(4) == 0 {
			closers = 1 + rng.Intn(8)
		}
		var wg sync.WaitGroup
		if kind == "close-racing-api" {
			for g := 0; g < 2; g++ {
				wg.Add(1)
				seed := rng.Int63()
				go func() {
					defer wg.Done()
					r := rand.New(rand.NewSource(seed))
					for k := 0; k < 40; k++ {
						if r.Intn(2) == 0 {
							w.Add(dirs[r.Intn(len(dirs))])
						} else {
							w.Remove(dirs[r.Intn(len(dirs))])
						}
					}
				}()
			}
		}
		var hung int32
		var hungDump atomic.Value
		for k := 0; k < closers; k++ {
			wg.Add(1)
			go func() {
				defer wg.Done()
				if ok, dump := core.WithWatchdog(twin.WatchdogTimeout, func() { w.Close() }); !ok {
					hungDump.Store(dump)
					atomic.StoreInt32(&hung, 1)
				}
			}()
		}
		wg.Wait()
		if streamStop != nil {
			close(streamStop)
			streamDone.Wait()
		}
		if atomic.LoadInt32(&hung) == 1 {
			if cls, d := persistentHangClass(hungDump.Load().(string)); cls == "lock-leaked" || cls == "deadlock:lock-order" || cls == "lock-holder-busy" {
				c.Violate("close-never-completes", fmt.Sprintf("cycle %d [%s watches=%d closers=%d buffer=%d]: a Close call did not return (%s): the reader goroutine cannot finish, so it, its buffer and the channels are never released", i, kind, nw, closers, buf, cls), dumpExcerpt(d))
				return
			} else if cls == "api-waits-for-reader-parked-in-send" {
				c.Violate("close-waits-for-a-reader-that-never-exits", fmt.Sprintf("cycle %d [%s watches=%d closers=%d buffer=%d]: Close waits for the reader goroutine, which is parked in a send nobody receives and does not react to Close: the goroutine, its buffer and the channels are never released", i, kind, nw, closers, buf), dumpExcerpt(d))
				return
			}
			c.Inconclusive("Close did not return (C05/C06 territory); cycle " + fmt.Sprint(i))
			return
		}
		select {
		case <-cdone:
		case <-time.After(twin.WatchdogTimeout):
			c.Inconclusive("channels not closed at the watchdog (C06 territory)")
			return
		}
		c.Count("cycles", 1)
		c.Eval(1)
		c.Distinct(kind, nw, closers, buf)
		c.Hist("history_kinds", kind, 1)
		if !settle(kind, fd) {
			ino, fds, rd := twin.InotifyFds(), twin.OpenFds(), readerGoroutines()
			link, _ := os.Readlink(fmt.Sprintf("/proc/self/fd/%d", fd))
			c.Violate("leak-after-close", fmt.Sprintf("cycle %d [%s watches=%d closers=%d buffer=%d]: after Close returned and both channels closed: inotify descriptors %d (baseline %d), descriptors %d (baseline %d), reader goroutines %d (baseline %d); fd %d is now %q",
				i, kind, nw, closers, buf, ino, baseIno, fds, baseFds, rd, baseReaders, fd, link), nil)
			return
		}
		c.Count("cycles_back_at_baseline", 1)
		runtime.KeepAlive(w) // reachable until judged: a finalizer closing the descriptor must not hide a leak
	}
	// ---- many short cycles of the commonest shape: buffered Watcher, a consumer at work, Close
	fast := c.Pick(1500, 8000)
	if c.Race {
		fast = c.Pick(300, 1500)
	}
	ff := filepath.Join(dirs[0], "fast")
	os.WriteFile(ff, nil, 0o644)
	for i := 0; i < fast; i++ {
		w, err := fsnotify.NewBufferedWatcher(uint([]int{1, 4, 8, 64}[i%4]))
		if err != nil {
			c.Broken("NewBufferedWatcher: " + err.Error())
			return
		}
		w.Add(dirs[0])
		cd := make(chan struct{})
		go func() {
			defer close(cd)
			n := 0
			for range w.Events {
				if n++; n%3 == 0 {
					runtime.Gosched()
				}
			}
			for range w.Errors {
			}
		}()
		for k := 0; k < 6+i%13; k++ {
			os.Chmod(ff, 0o600+os.FileMode(k%2))
		}
		ok, dump := core.WithWatchdog(twin.WatchdogTimeout, func() { w.Close() })
		if !ok {
			if cls, d := persistentHangClass(dump); cls == "api-waits-for-reader-parked-in-send" {
				c.Violate("close-waits-for-a-reader-that-never-exits", fmt.Sprintf("fast cycle %d [buffer %d, consumer receiving]: Close waits for the reader goroutine, which is parked on a channel operation and does not react to Close", i, []int{1, 4, 8, 64}[i%4]), dumpExcerpt(d))
			} else {
				c.Inconclusive("fast cycle: Close not returned at the watchdog, dump class " + cls)
			}
			return
		}
		select {
		case <-cd:
		case <-time.After(twin.WatchdogTimeout):
			c.Inconclusive("fast cycle: channels not closed at the watchdog")
			return
		}
		c.Count("fast_cycles", 1)
		if i%200 == 199 || i == fast-1 {
			if !settle("fast cycles", -1) {
				c.Violate("leak-after-close", fmt.Sprintf("after %d fast cycles: inotify descriptors %d (baseline %d), descriptors %d (baseline %d), reader goroutines %d (baseline %d)", i+1, twin.InotifyFds(), baseIno, twin.OpenFds(), baseFds, readerGoroutines(), baseReaders), nil)
				return
			}
		}
		runtime.KeepAlive(w)
	}
	c.Eval(fast)
	c.Max("goroutines_drift", int64(runtime.NumGoroutine()-baseGor))
	c.Sample(map[string]interface{}{"cycles": cycles, "baseline_inotify_fds": baseIno, "baseline_fds": baseFds, "final_inotify_fds": twin.InotifyFds(), "final_fds": twin.OpenFds()})
	// ---- injected fault: NewWatcher fails at its first syscall
	var lim unix.Rlimit
	if err := unix.Getrlimit(unix.RLIMIT_NOFILE, &lim); err != nil {
		c.Broken("getrlimit: " + err.Error())
		return
	}
	nFail := c.Pick(300, 3000)
	// keep /proc/self/fd readable: the directory listing itself needs one descriptor,
	// so probe counts are taken with the limit restored
	low := unix.Rlimit{Cur: uint64(highestFd() + 1), Max: lim.Max}
	failed, succeeded := 0, 0
	for k := 0; k < nFail; k++ {
		// fill holes below the limit so that no descriptor number is free
		holes := fillHoles(int(low.Cur))
		unix.Setrlimit(unix.RLIMIT_NOFILE, &low)
		var w *fsnotify.Watcher
		var err error
		if k%2 == 0 {
			w, err = fsnotify.NewWatcher()
		} else {
			w, err = fsnotify.NewBufferedWatcher(64)
		}
		unix.Setrlimit(unix.RLIMIT_NOFILE, &lim)
		for _, h := range holes {
			unix.Close(h)
		}
		if err == nil {
			succeeded++
			w.Close()
			continue
		}
		failed++
	}
	c.Count("failed_newwatcher_calls", int64(failed))
	c.Count("newwatcher_calls_that_succeeded_despite_the_limit", int64(succeeded))
	c.Eval(nFail)
	if !settle("failed NewWatcher", -1) {
		c.Violate("leak-after-failed-newwatcher", fmt.Sprintf("after %d failed NewWatcher calls: inotify descriptors %d (baseline %d), descriptors %d (baseline %d), reader goroutines %d (baseline %d)",
			failed, twin.InotifyFds(), baseIno, twin.OpenFds(), baseFds, readerGoroutines(), baseReaders), nil)
	}
	if failed == 0 {
		c.Broken("the RLIMIT_NOFILE fault never made NewWatcher fail")
	}
}

func highestFd() int {
	ents, _ := os.ReadDir("/proc/self/fd")
	hi := 2
	for _, e := range ents {
		var n int
		fmt.Sscan(e.Name(), &n)
		if n > hi {
			hi = n
		}
	}
	return hi
}

// fillHoles opens /dev/null until every descriptor number below limit is taken.
func fillHoles(limit int) []int {
	var got []int
	for {
		fd, err := unix.Open("/dev/null", unix.O_RDONLY|unix.O_CLOEXEC, 0)
		if err != nil {
			return got
		}
		if fd >= limit {
			unix.Close(fd)
			return got
		}
		got = append(got, fd)
	}
}
