package checks

import (
	"fmt"
	"math/rand"
	"os"
	"path/filepath"
	"sync"
	"sync/atomic"
	"time"

	"github.com/fsnotify/fsnotify"
	"golang.org/x/sys/unix"

	"harness/core"
	"harness/twin"
)

func init() {
	core.Register(&core.Check{
		ID:    "C11",
		Level: "exploration",
		Rule: "E-twin, cookie map vs the library's ring: sequential histories mixing moves within a watched directory, between two watched directories, in from outside, out to outside (1-200 unmatched cookies in a row), chains of 11-500 moves, " +
			"moves of a watched file inside its watched directory, plain creates and hard links; every received Create must carry exactly the old name the kernel cookie pairs it with (read through Event.String and the hook), or none. " +
			"Concurrent variant: 2-8 mover goroutines over 4 watched directories with a continuously drained shadow, compared per directory, pairing by kernel cookie. " +
			"Ping-pong variant: 2-4 movers, each renaming one file back and forth in its own watched directory thousands of times under window control, so that halves of different moves interleave (FROM a, FROM b, TO a, ...); per-Create judgement up to a distance of 8 Renames in the Watcher's own received order (the ring holds ten). " +
			"distinct_nontrivial = distinct histories with >=1 paired and >=1 unpaired Create",
		Assumptions: []string{"kernel shadow = ground truth; the kernel's cookie is the definition of 'the same move'", "with more than 10 IN_MOVED_FROM between the two halves of one move the ten-slot ring legitimately forgets; the largest distance actually observed is reported and such histories are not generated sequentially"},
		Batches:     func(t string) int { return map[string]int{"quick": 12, "thorough": 48}[t] },
		RaceBatches: func(t string) int { return map[string]int{"quick": 1, "thorough": 8}[t] },
		ChildTimeout: func(t string) time.Duration {
			return map[string]time.Duration{"quick": 10 * time.Minute, "thorough": 40 * time.Minute}[t]
		},
		MustObserve: []string{"creates_with_old_name", "creates_without_old_name", "unmatched_moves_out", "concurrent_histories", "pingpong_moves_with_other_halves_in_between"},
		Run:         runC11,
	})
}

func c11Verdict(c *core.Ctx, rep *twin.Report, what string) {
	for _, d := range rep.Diffs {
		var bad []twin.Ev
		for _, e := range append(append([]twin.Ev{}, d.Diff.Extra...), d.Diff.Missing...) {
			if e.Op&fsnotify.Create != 0 {
				bad = append(bad, e)
			}
		}
		for _, e := range d.Diff.Reordered {
			if e.Op&fsnotify.Create != 0 {
				bad = append(bad, e)
			}
		}
		if len(bad) > 0 {
			c.Violate("rename-correlation", fmt.Sprintf("%s: Create events %v disagree with the kernel's cookie pairing (expected-only %v, received-only %v); tail %v", what, bad, d.Diff.Missing, d.Diff.Extra, d.Log), d)
		}
	}
}

func runC11(c *core.Ctx) {
	n := c.Pick(40, 80)
	if c.Race {
		n = c.Pick(10, 40)
	}
	for i := 0; i < n; i++ {
		rng, ok := c.CaseRng(i, "sequential move history")
		if !ok {
			continue
		}
		dir, done := caseDir(c, i)
		c11Seq(c, rng, dir, i)
		done()
	}
	m := c.Pick(4, 12)
	for i := 0; i < m; i++ {
		rng, ok := c.CaseRng(1000+i, "concurrent movers")
		if !ok {
			continue
		}
		dir, done := caseDir(c, 1000+i)
		c11Conc(c, rng, dir, i)
		done()
	}
	for i := 0; i < c.Pick(2, 6); i++ {
		rng, ok := c.CaseRng(2000+i, "ping-pong movers (interleaved halves)")
		if !ok {
			continue
		}
		dir, done := caseDir(c, 2000+i)
		c11PingPong(c, rng, dir, i)
		done()
	}
}

func c11Seq(c *core.Ctx, rng *rand.Rand, dir string, idx int) {
	s, err := twin.NewSession(dir, []int{-1, 0, 16, 4096}[rng.Intn(4)])
	if err != nil {
		c.Broken(err.Error())
		return
	}
	defer s.Close()
	os.Chdir(s.Base)
	rep := twin.Report{}
	for _, d := range []string{"a", "b", "out"} {
		os.Mkdir(d, 0o755)
	}
	s.AddStrict(&rep, twin.Spell(rng, s.Base, "a"))
	s.AddStrict(&rep, twin.Spell(rng, s.Base, "b"))
	// pool of files
	seq := 0
	fresh := func() string { seq++; return fmt.Sprintf("n%d", seq) }
	live := map[string][]string{"a": nil, "b": nil, "out": nil}
	mk := func(d string) {
		nm := fresh()
		os.WriteFile(filepath.Join(d, nm), nil, 0o644)
		live[d] = append(live[d], nm)
	}
	for k := 0; k < 6; k++ {
		mk("a")
		mk("b")
	}
	for k := 0; k < 230; k++ {
		mk("out")
	}
	s.Step("populate")
	s.Sync(&rep, true)
	take := func(d string) (string, bool) {
		l := live[d]
		if len(l) == 0 {
			return "", false
		}
		j := rng.Intn(len(l))
		nm := l[j]
		live[d] = append(l[:j], l[j+1:]...)
		return nm, true
	}
	move := func(from, to string) {
		nm, ok := take(from)
		if !ok {
			return
		}
		nn := fresh()
		if rng.Intn(4) == 0 && len(live[to]) > 0 { // onto an existing entry
			nn = live[to][rng.Intn(len(live[to]))]
		} else {
			live[to] = append(live[to], nn)
		}
		s.Rename(filepath.Join(from, nm), filepath.Join(to, nn))
	}
	if rng.Intn(3) == 0 {
		s.Pause(true)
	}
	steps := 60 + rng.Intn(c.Pick(200, 600))
	watchedFile := ""
	for k := 0; k < steps && !rep2fail(&rep); k++ {
		switch rng.Intn(12) {
		case 0, 1:
			move("a", "a")
		case 2, 3:
			move([]string{"a", "b"}[rng.Intn(2)], []string{"a", "b"}[rng.Intn(2)])
		case 4:
			move("out", []string{"a", "b"}[rng.Intn(2)]) // in from outside: Create without old name
		case 5: // 1-200 unmatched moves out in a row, then a matched move
			cnt := []int{1, 2, 9, 10, 11, 12, 50, 200}[rng.Intn(8)]
			for j := 0; j < cnt; j++ {
				d := []string{"a", "b"}[rng.Intn(2)]
				if len(live[d]) < 2 {
					mk(d)
					s.Step("creat")
				}
				move(d, "out")
				c.Count("unmatched_moves_out", 1)
			}
			move("a", "b")
		case 6: // chain of 11-500 moves of one file
			cnt := 11 + rng.Intn(c.Pick(60, 490))
			d := "a"
			nm, ok := take(d)
			if !ok {
				break
			}
			cur := filepath.Join(d, nm)
			for j := 0; j < cnt; j++ {
				d2 := []string{"a", "b"}[rng.Intn(2)]
				nxt := filepath.Join(d2, fresh())
				s.Rename(cur, nxt)
				cur = nxt
			}
			live[filepath.Dir(cur)] = append(live[filepath.Dir(cur)], filepath.Base(cur))
			c.Max("longest_move_chain", int64(cnt))
		case 7:
			d := []string{"a", "b"}[rng.Intn(2)]
			nm := fresh()
			s.Creat(filepath.Join(d, nm))
			live[d] = append(live[d], nm)
		case 8:
			if nm, ok := take("a"); ok {
				nn := fresh()
				s.Link(filepath.Join("a", nm), filepath.Join("b", nn))
				live["a"] = append(live["a"], nm)
				live["b"] = append(live["b"], nn)
			}
		case 9: // a watched file moved inside its watched directory
			if watchedFile == "" && len(live["a"]) > 0 {
				watchedFile = live["a"][0]
				s.AddStrict(&rep, filepath.Join("a", watchedFile))
				if rng.Intn(2) == 0 {
					s.Pause(true)
				}
			} else if watchedFile != "" {
				for j, x := range live["a"] {
					if x == watchedFile {
						live["a"] = append(live["a"][:j], live["a"][j+1:]...)
						nn := fresh()
						s.Rename(filepath.Join("a", watchedFile), filepath.Join("a", nn))
						live["a"] = append(live["a"], nn)
						break
					}
				}
				watchedFile = ""
			}
		case 10:
			if rng.Intn(3) == 0 {
				s.Sync(&rep, true)
				if rng.Intn(2) == 0 {
					s.Pause(true)
				}
			}
		default:
			move("b", "a")
		}
	}
	// count what the oracle will look at, from the expected stream
	for _, e := range s.Want {
		if e.Op&fsnotify.Create != 0 {
			if e.From != "" {
				c.Count("creates_with_old_name", 1)
			} else {
				c.Count("creates_without_old_name", 1)
			}
		}
	}
	wasPaired, wasPlain := false, false
	for _, e := range s.Want {
		if e.Op&fsnotify.Create != 0 {
			if e.From != "" {
				wasPaired = true
			} else {
				wasPlain = true
			}
		}
	}
	// Event.String must render the old name too
	ok2, dump := s.Barrier()
	if !ok2 {
		c.Inconclusive("barrier watchdog: " + hangClass(dump))
		return
	}
	want, got, _ := s.Take()
	d := twin.Compare(want, got)
	rep.Windows++
	rep.Received += len(got)
	if !d.Empty() {
		rep.Diffs = append(rep.Diffs, twin.WindowDiff{Diff: d, Want: nil, Got: nil, Log: s.Tail(25)})
	}
	for i, e := range got {
		if e.From == "" {
			continue
		}
		found := false
		for j := i - 1; j >= 0 && j >= i-3; j-- {
			if got[j].Op&fsnotify.Rename != 0 && got[j].Name == e.From {
				found = true
			}
		}
		if !found {
			c.Violate("old-name-without-rename", fmt.Sprintf("%v carries an old name that is not the name of the Rename event just before it", e), s.Tail(20))
		}
		str := fsnotify.VerifEvent(e.Name, e.Op, e.From).String()
		if parseEventString(str, e.Op.String(), e.Name, e.From) != "" {
			c.Violate("string-old-name", fmt.Sprintf("Event.String()=%q does not render the old name %q", str, e.From), nil)
		}
	}
	c.Eval(1)
	c.Count("events_received", int64(rep.Received))
	c.Count("kernel_notifications_observed", int64(s.Sh.RawSeen))
	if wasPaired && wasPlain {
		c.Distinct("seq", c.Batch, idx)
	}
	c11Verdict(c, &rep, "sequential")
	if idx == 0 {
		c.Sample(map[string]interface{}{"history_tail": s.Tail(15), "received_tail": clipEv(got, 8)})
	}
}

func rep2fail(r *twin.Report) bool { return len(r.Diffs) > 0 || r.Hang != "" }

func clipEv(l []twin.Ev, n int) []twin.Ev {
	if len(l) > n {
		return l[len(l)-n:]
	}
	return l
}

func c11Conc(c *core.Ctx, rng *rand.Rand, dir string, idx int) {
	s, err := twin.NewSession(dir, -1)
	if err != nil {
		c.Broken(err.Error())
		return
	}
	defer s.Close()
	base := s.Base
	nd := 4
	var dirs []string
	var rep twin.Report
	for i := 0; i < nd; i++ {
		d := filepath.Join(base, fmt.Sprint("D", i))
		os.Mkdir(d, 0o755)
		dirs = append(dirs, d)
		for k := 0; k < 3; k++ {
			os.WriteFile(filepath.Join(d, fmt.Sprintf("f%d_%d", i, k)), nil, 0o644)
		}
		s.AddStrict(&rep, d)
	}
	out := filepath.Join(base, "out")
	os.Mkdir(out, 0o755)
	s.Sync(&rep, true)
	// continuous shadow drain
	var raws []twin.Raw
	var rmu sync.Mutex
	stop := make(chan struct{})
	rdone := make(chan struct{})
	go func() {
		defer close(rdone)
		for {
			r := s.Sh.Drain()
			if len(r) > 0 {
				rmu.Lock()
				raws = append(raws, r...)
				rmu.Unlock()
				continue
			}
			select {
			case <-stop:
				return
			default:
			}
			time.Sleep(30 * time.Microsecond)
		}
	}()
	nth := 2 + rng.Intn(7)
	per := c.Pick(200, 500)
	var wg sync.WaitGroup
	seeds := make([]int64, nth)
	for i := range seeds {
		seeds[i] = rng.Int63()
	}
	for th := 0; th < nth; th++ {
		wg.Add(1)
		go func(th int) {
			defer wg.Done()
			r := rand.New(rand.NewSource(seeds[th]))
			for k := 0; k < per; k++ {
				a := dirs[r.Intn(nd)]
				b := dirs[r.Intn(nd)]
				ents, _ := os.ReadDir(a)
				if len(ents) == 0 {
					continue
				}
				src := filepath.Join(a, ents[r.Intn(len(ents))].Name())
				switch r.Intn(6) {
				case 0:
					unix.Rename(src, filepath.Join(out, fmt.Sprintf("o%d_%d", th, k)))
				case 1:
					oe, _ := os.ReadDir(out)
					if len(oe) > 0 {
						unix.Rename(filepath.Join(out, oe[r.Intn(len(oe))].Name()), filepath.Join(b, fmt.Sprintf("i%d_%d", th, k)))
					}
				case 2:
					os.WriteFile(filepath.Join(b, fmt.Sprintf("c%d_%d", th, k)), nil, 0o644)
				default:
					unix.Rename(src, filepath.Join(b, fmt.Sprintf("m%d_%d", th, k)))
				}
			}
		}(th)
	}
	wg.Wait()
	ok, dump := s.Barrier()
	if !ok {
		close(stop)
		<-rdone
		c.Inconclusive("concurrent: barrier watchdog " + hangClass(dump))
		return
	}
	time.Sleep(5 * time.Millisecond)
	close(stop)
	<-rdone
	raws = append(raws, s.Sh.Drain()...)
	// distance between the two halves of one move, in IN_MOVED_FROM notifications
	pos := map[uint32]int{}
	nfrom, maxGap := 0, 0
	for _, r := range raws {
		if r.Mask&unix.IN_MOVED_FROM != 0 {
			nfrom++
			pos[r.Cookie] = nfrom
		} else if r.Mask&unix.IN_MOVED_TO != 0 {
			if p, ok := pos[r.Cookie]; ok && nfrom-p > maxGap {
				maxGap = nfrom - p
			}
		}
	}
	c.Max("max_moved_from_between_halves_of_one_move", int64(maxGap))
	want := s.Sh.Translate(raws)
	_, got, _ := s.Take()
	proj := func(l []twin.Ev) map[string][]twin.Ev {
		m := map[string][]twin.Ev{}
		for _, e := range l {
			d := filepath.Dir(e.Name)
			m[d] = append(m[d], e)
		}
		return m
	}
	pw, pg := proj(want), proj(got)
	paired, plain := 0, 0
	for _, e := range want {
		if e.Op&fsnotify.Create != 0 {
			if e.From != "" {
				paired++
			} else {
				plain++
			}
		}
	}
	c.Count("creates_with_old_name", int64(paired))
	c.Count("creates_without_old_name", int64(plain))
	c.Count("concurrent_histories", 1)
	c.Count("events_received", int64(len(got)))
	c.Hist("mover_goroutines", fmt.Sprint(nth), 1)
	c.Eval(1)
	if paired > 0 && plain > 0 {
		c.Distinct("conc", c.Batch, idx)
	}
	if maxGap >= 10 {
		c.Inconclusive(fmt.Sprintf("concurrent history had %d IN_MOVED_FROM between the halves of one move: beyond the ring's documented reach, not judged", maxGap))
		return
	}
	for _, d := range dirs {
		df := twin.Compare(pw[d], pg[d])
		if !df.Empty() {
			r := twin.Report{Diffs: []twin.WindowDiff{{Diff: df, Log: []string{"concurrent movers, directory " + filepath.Base(d)}}}}
			c11Verdict(c, &r, fmt.Sprintf("concurrent (%d movers), directory %s", nth, filepath.Base(d)))
		}
	}
}

// c11PingPong: interleaved halves. 2-4 mover goroutines, each renaming one file back and forth inside its OWN
// watched directory as fast as it can (throttled only so that neither kernel queue overflows): the two halves
// of one move are then regularly separated by halves of other moves (FROM a, FROM b, TO a, FROM c, TO b ...).
// Per directory there is one mover, so each directory's stream is a deterministic alternation; every Create
// must carry the old name the kernel cookie pairs it with. The ring holds ten IN_MOVED_FROM; the distance that matters is the
// one in the Watcher's own queue, read off the received stream; Creates up to a distance of 8 are judged.
func c11PingPong(c *core.Ctx, rng *rand.Rand, dir string, idx int) {
	s, err := twin.NewSession(dir, []int{-1, 0, 256}[rng.Intn(3)])
	if err != nil {
		c.Broken(err.Error())
		return
	}
	var recv int64
	s.OnEvent = func(twin.Ev) { atomic.AddInt64(&recv, 1) }
	defer s.Close()
	base := s.Base
	nth := 2 + rng.Intn(3)
	var dirs []string
	var rep twin.Report
	for i := 0; i < nth; i++ {
		d := filepath.Join(base, fmt.Sprint("P", i))
		os.Mkdir(d, 0o755)
		os.WriteFile(filepath.Join(d, "p"), nil, 0o644)
		dirs = append(dirs, d)
		s.AddStrict(&rep, d)
	}
	s.Sync(&rep, true)
	recv0 := atomic.LoadInt64(&recv)
	var raws []twin.Raw
	var rmu sync.Mutex
	stop := make(chan struct{})
	rdone := make(chan struct{})
	go func() {
		defer close(rdone)
		for {
			r := s.Sh.Drain()
			if len(r) > 0 {
				rmu.Lock()
				raws = append(raws, r...)
				rmu.Unlock()
				continue
			}
			select {
			case <-stop:
				return
			default:
			}
			time.Sleep(20 * time.Microsecond)
		}
	}()
	per := c.Pick(3000, 15000)
	if c.Race {
		per = c.Pick(600, 3000)
	}
	var sent int64
	var wg sync.WaitGroup
	for th := 0; th < nth; th++ {
		wg.Add(1)
		go func(th int) {
			defer wg.Done()
			p, q := filepath.Join(dirs[th], "p"), filepath.Join(dirs[th], "q")
			for k := 0; k < per; k++ {
				if k%2 == 0 {
					unix.Rename(p, q)
				} else {
					unix.Rename(q, p)
				}
				n := atomic.AddInt64(&sent, 2)
				// window control (logical, not timed): never more than 6000 undelivered events
				for n-(atomic.LoadInt64(&recv)-recv0) > 6000 {
					time.Sleep(50 * time.Microsecond)
					rmu.Lock()
					back := int64(len(raws))
					rmu.Unlock()
					_ = back
				}
			}
		}(th)
	}
	wg.Wait()
	ok, dump := s.Barrier()
	close(stop)
	<-rdone
	if !ok {
		c.Inconclusive("ping-pong: barrier watchdog " + hangClass(dump))
		return
	}
	raws = append(raws, s.Sh.Drain()...)
	for _, r := range raws {
		if r.Mask&unix.IN_Q_OVERFLOW != 0 {
			c.Inconclusive("ping-pong: the shadow's queue overflowed; not judged")
			return
		}
	}
	// distance of the halves in the SHADOW's log (statistics only: how much interleaving the run produced)
	pos := map[uint32]int{}
	nfrom, maxGap, interleaved := 0, 0, 0
	tok := map[int32]int{}
	for _, r := range raws {
		if r.Mask&unix.IN_MOVED_FROM != 0 {
			nfrom++
			pos[r.Cookie] = nfrom
		} else if r.Mask&unix.IN_MOVED_TO != 0 {
			g := nfrom - pos[r.Cookie]
			if g > maxGap {
				maxGap = g
			}
			if g > 0 {
				interleaved++
			}
			tok[r.Wd]++
		}
	}
	want := s.Sh.Translate(raws)
	_, got, errs := s.Take()
	// The distance that matters is the one in the Watcher's OWN queue (the two inotify instances may order
	// notifications of different directories differently). It can be read off the received stream: per
	// directory the k-th Rename and the k-th Create are the halves of the k-th move (one mover per
	// directory), and every received Rename stands for one IN_MOVED_FROM the ring had to take in.
	// Judged: Creates with at most 8 other Renames in between (the ring holds ten).
	type key struct {
		dir string
		k   int
	}
	far := map[key]bool{}
	judged := 0
	{
		renIdx := map[string][]int{} // dir -> number of Renames received so far, at each of its Renames
		nRen := 0
		nCre := map[string]int{}
		for _, e := range got {
			d := filepath.Dir(e.Name)
			if e.Op&fsnotify.Rename != 0 {
				nRen++
				renIdx[d] = append(renIdx[d], nRen)
			}
			if e.Op&fsnotify.Create != 0 {
				k := nCre[d]
				nCre[d]++
				if k < len(renIdx[d]) && nRen-renIdx[d][k] <= 8 {
					judged++
				} else {
					far[key{d, k}] = true
				}
			}
		}
	}
	thr := 8
	c.Count("pingpong_renames", int64(nth*per))
	c.Count("pingpong_moves_with_other_halves_in_between", int64(interleaved))
	c.Count("pingpong_creates_judged", int64(judged))
	c.Max("max_moved_from_between_halves_of_one_move", int64(maxGap))
	c.Count("concurrent_histories", 1)
	c.Count("events_received", int64(len(got)))
	c.Eval(1)
	if interleaved > 0 {
		c.Distinct("pingpong", c.Batch, idx)
	}
	for _, e := range errs {
		c.Inconclusive("ping-pong: value on Errors: " + e.Error())
		return
	}
	// blank the old name of the Creates that are beyond the judged distance, on both sides
	blank := func(l []twin.Ev, d string, on bool) []twin.Ev {
		k := 0
		out := append([]twin.Ev{}, l...)
		for i := range out {
			if out[i].Op&fsnotify.Create != 0 {
				if on && far[key{d, k}] {
					out[i].From = ""
				}
				k++
			}
		}
		return out
	}
	proj := func(l []twin.Ev, d string) []twin.Ev {
		var o []twin.Ev
		for _, e := range l {
			if filepath.Dir(e.Name) == d {
				o = append(o, e)
			}
		}
		return o
	}
	for _, d := range dirs {
		pw, pg := proj(want, d), proj(got, d)
		nw, ng := 0, 0
		for _, e := range pw {
			if e.Op&fsnotify.Create != 0 {
				nw++
			}
		}
		for _, e := range pg {
			if e.Op&fsnotify.Create != 0 {
				ng++
			}
		}
		// with a different number of Creates than moves the k-th-to-k-th pairing is void: plain comparison
		on := nw == ng
		df := twin.Compare(blank(pw, d, on), blank(pg, d, on))
		if !df.Empty() {
			r := twin.Report{Diffs: []twin.WindowDiff{{Diff: df, Log: []string{fmt.Sprintf("ping-pong movers, directory %s, %d moves had halves of other moves in between (largest distance %d, judged up to %d)", filepath.Base(d), interleaved, maxGap, thr)}}}}
			c11Verdict(c, &r, fmt.Sprintf("ping-pong (%d movers), directory %s", nth, filepath.Base(d)))
		}
	}
}
