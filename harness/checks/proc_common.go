package checks

import (
	"strings"
	"math/rand"
	"runtime"
	"sync"
	"sync/atomic"
	"time"

	"github.com/fsnotify/fsnotify"
)

// apiTrack counts API calls in flight so the lock probe can tell "an API call
// holds the lock" from "the sender itself holds it".
type apiTrack struct {
	started, finished int64
}

func (a *apiTrack) call(f func()) {
	atomic.AddInt64(&a.started, 1)
	defer atomic.AddInt64(&a.finished, 1)
	f()
}

type probeStats struct {
	sends, contended, underLock int64
	errSends                    int64 // sends that come from sendError (recognised on the call stack)
	points                      sync.Map // name -> *int64
}

func (p *probeStats) point(name string) {
	v, ok := p.points.Load(name)
	if !ok {
		v, _ = p.points.LoadOrStore(name, new(int64))
	}
	atomic.AddInt64(v.(*int64), 1)
}

// sendDelayUS > 0: the Send hook pauses that long before every send (set and reset by individual cases).
var sendDelayUS int32

// Error-send gate: while gateErrorSends == 1 the Send hook holds every sender that comes from sendError at
// sendGate (signalling hit on the first one) until open is closed.
type errGate struct {
	hit, open chan struct{}
	hitOnce   sync.Once
}

var sendGate atomic.Value // *errGate
var gateErrorSends int32

func callerIs(fn string) bool {
	var pcs [8]uintptr
	n := runtime.Callers(3, pcs[:])
	fr := runtime.CallersFrames(pcs[:n])
	for {
		f, more := fr.Next()
		if strings.HasSuffix(f.Function, "."+fn) {
			return true
		}
		if !more {
			return false
		}
	}
}

// installProbeHooks installs the lock probe and PRNG-driven yield injection.
// A send is flagged "under lock" only when the lock stays held across two
// consecutive probes between which no tracked API call was in flight: the only
// other user of the lock is the reader goroutine, i.e. the sender itself.
func installProbeHooks(a *apiTrack, st *probeStats, seed int64, yield bool) {
	var rmu sync.Mutex
	rng := rand.New(rand.NewSource(seed))
	rnd := func(n int) int {
		rmu.Lock()
		defer rmu.Unlock()
		return rng.Intn(n)
	}
	fsnotify.VerifSetHooks(&fsnotify.VerifHooks{
		Point: func(name string, n int) {
			st.point(name)
			if !yield {
				return
			}
			switch rnd(6) {
			case 0:
				runtime.Gosched()
			case 1:
				time.Sleep(time.Duration(rnd(200)) * time.Microsecond)
			case 2:
				if name == "inotify.api" || name == "inotify.close" {
					time.Sleep(time.Duration(rnd(2000)) * time.Microsecond)
				}
			}
		},
		Send: func(lockFree func() bool) {
			atomic.AddInt64(&st.sends, 1)
			isErr := callerIs("sendError")
			if isErr {
				atomic.AddInt64(&st.errSends, 1)
			}
			if atomic.LoadInt32(&gateErrorSends) == 1 && isErr {
				// requested by a case: whoever sends an ERROR is held right before its select until the case
				// lets go (a place where the scheduler may leave the sender for any length of time)
				if g, _ := sendGate.Load().(*errGate); g != nil {
					g.hitOnce.Do(func() { close(g.hit) })
					<-g.open
				}
			}
			if d := atomic.LoadInt32(&sendDelayUS); d > 0 {
				// requested by a case: every send is preceded by a pause (a scheduling point that exists:
				// the sender may be descheduled right before its select)
				time.Sleep(time.Duration(d) * time.Microsecond)
			}
			// Instant, timing-free witness: no tracked API call was in flight over the whole
			// probe (finished read before, started read after, equal) and yet the lock is held:
			// the only other user of the lock is the reader goroutine, i.e. this sender.
			f0 := atomic.LoadInt64(&a.finished)
			free := lockFree()
			s0 := atomic.LoadInt64(&a.started)
			if free {
				return
			}
			if s0 == f0 {
				atomic.AddInt64(&st.underLock, 1)
				return
			}
			atomic.AddInt64(&st.contended, 1)
			for i := 0; i < 400; i++ {
				time.Sleep(50 * time.Microsecond)
				f1 := atomic.LoadInt64(&a.finished)
				free := lockFree()
				s1 := atomic.LoadInt64(&a.started)
				if free {
					return
				}
				if s1 == f1 {
					atomic.AddInt64(&st.underLock, 1)
					return
				}
			}
		},
	})
}
