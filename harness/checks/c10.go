package checks

import (
	"math/rand"
	"sync"
	"errors"
	"fmt"
	"os"
	"strings"
	"path/filepath"
	"regexp"
	"sync/atomic"
	"time"

	"github.com/fsnotify/fsnotify"

	"harness/core"
	"harness/twin"
)

func init() {
	core.Register(&core.Check{
		ID:    "C10",
		Level: "fault_enumeration",
		Rule: "E-twin consumer + E-fault: (1) benign PRNG programs (the C01 family with file watches and consumer pauses so the reader lags) must leave Errors empty; " +
			"(2) directed two-step histories whose second step invalidates a kernel watch before the first notification is processed (rename-then-delete, rename-then-rmdir, delete-then-Remove, rename-then-Remove, recreate-then-re-Add, rename-rename-delete) " +
			"with the reader held back by a paused consumer for 0..64 earlier events, on files and directories; (3) real queue overflows of 1.1x and 2x max_queued_events (8x in thorough), twice in a row, with changes made while the overflow marker is still unread (after part of the queue was consumed), strace-injected EIO on the inotify read (must be reported, and survived), and the other read paths of the reader: injected EINTR (not a failure: nothing on Errors, nothing lost), injected return values 0 and 8 (end of file / short read: reported, survived): " +
			"watches added with operation sets that lack Remove/Rename (so that only IN_IGNORED tells of their end) whose paths are deleted or renamed: nothing on Errors; plus the close race (hundreds of iterations: a watched file renamed and the Watcher closed at once while WatchList pollers contend for its lock: nothing may arrive on Errors); an error satisfying errors.Is(ErrEventOverflow) must arrive, afterwards a sentinel, ordinary events, Add and Remove must work. distinct_nontrivial = distinct programs/histories that delivered >=1 event",
		Assumptions: []string{"no fault is injected in parts (1) and (2): any value on Errors there is spurious", "overflow is provoked only in part (3)"},
		Batches:     func(t string) int { return map[string]int{"quick": 16, "thorough": 64}[t] },
		MustObserve: []string{"events_received", "directed_histories", "overflow_cases", "other_read_fault_sessions", "restricted_ops_histories"},
		Run:         runC10,
	})
}

var pathRe = regexp.MustCompile(`/[^\s:"]+`)

func errSig(e string) string { return "spurious-error:" + pathRe.ReplaceAllString(e, "<path>") }

func runC10(c *core.Ctx) {
	installStatHooks()
	defer flushHookStats(c)
	n := c.Pick(25, 100)
	hangs := 0
	for i := 0; i < n && hangs < 2; i++ {
		rng, ok := c.CaseRng(i, "benign twin program")
		if !ok {
			continue
		}
		cfg := twinConfig(c, rng)
		if cfg.AddBias == 0 && !cfg.StartPaused {
			cfg.AddBias = 3
		}
		if cfg.PauseBias == 0 {
			cfg.PauseBias = 2
		}
		dir, done := caseDir(c, i)
		rep := twin.RunProgram(rng, dir, cfg)
		done()
		c.Eval(1)
		reportStats(c, rep)
		if rep.Broken != "" {
			c.Broken(rep.Broken)
			continue
		}
		if nontrivial(rep) {
			c.Distinct(c.Batch, i, opKindsKey(rep))
		}
		for k, e := range rep.Errors {
			c.Violate(errSig(e), fmt.Sprintf("benign history put %q on Errors; history tail: %v", e, rep.ErrLog[k]), rep.ErrLog[k])
		}
		if rep.Hang != "" {
			hangs++
			c.Inconclusive("barrier watchdog fired, dump class " + hangClass(rep.Hang))
		}
	}
	// directed "second step invalidates the watch first" family
	shapes := []string{"rename-then-delete", "rename-then-rmdir", "delete-then-Remove", "rename-then-Remove", "recreate-then-re-Add", "rename-rename-delete", "delete-parent-and-file"}
	m := c.Pick(42, 210)
	for i := 0; i < m && hangs < 2; i++ {
		rng, ok := c.CaseRng(1000+i, "directed "+shapes[i%len(shapes)])
		if !ok {
			continue
		}
		shape := shapes[i%len(shapes)]
		dir, done := caseDir(c, 1000+i)
		func() {
			defer done()
			s, err := twin.NewSession(dir, []int{-1, 0, 1, 64}[rng.Intn(4)])
			if err != nil {
				c.Broken(err.Error())
				return
			}
			defer s.Close()
			os.Chdir(s.Base)
			var rep twin.Report
			isDir := shape == "rename-then-rmdir" || (shape != "rename-then-delete" && rng.Intn(3) == 0)
			os.Mkdir("p", 0o755)
			os.Mkdir("o", 0o755)
			tgt := "p/x"
			if isDir {
				os.Mkdir(tgt, 0o755)
			} else {
				os.WriteFile(tgt, nil, 0o644)
			}
			rm := func(p string) {
				if isDir {
					s.Rmdir(p)
				} else {
					s.Unlink(p)
				}
			}
			withParent := rng.Intn(3) == 0 || shape == "delete-parent-and-file"
			if withParent {
				s.AddStrict(&rep, twin.Spell(rng, s.Base, "p"))
			}
			sp := twin.Spell(rng, s.Base, tgt)
			if s.AddStrict(&rep, sp) != nil {
				c.Broken("directed add failed")
				return
			}
			// hold the reader back: k earlier events with the consumer paused
			k := []int{0, 1, 2, 7, 64}[rng.Intn(5)]
			if k > 0 {
				s.Pause(true)
				for j := 0; j < k; j++ {
					s.Chmod(tgt, uint32(0o700+j%8))
				}
			}
			switch shape {
			case "rename-then-delete", "rename-then-rmdir":
				s.Rename(tgt, "o/y")
				rm("o/y")
			case "rename-rename-delete":
				s.Rename(tgt, "o/y")
				s.Rename("o/y", "o/z")
				rm("o/z")
			case "delete-then-Remove":
				rm(tgt)
				err := s.W.Remove(sp)
				s.Sh.Remove(sp)
				s.Sh.Drain()
				s.Logf("Remove(%q)=%v", sp, err)
			case "rename-then-Remove":
				s.Rename(tgt, "o/y")
				err := s.W.Remove(sp)
				s.Sh.Remove(sp)
				s.Sh.Drain()
				s.Logf("Remove(%q)=%v", sp, err)
			case "recreate-then-re-Add":
				rm(tgt)
				if isDir {
					s.Mkdir(tgt)
				} else {
					s.Creat(tgt)
				}
				err := s.W.Add(sp)
				s.Logf("Add(%q)=%v", sp, err)
			case "delete-parent-and-file":
				rm(tgt)
				s.Rmdir("p")
			}
			ok2, dump := s.Barrier()
			c.Count("directed_histories", 1)
			c.Hist("directed_shapes", shape, 1)
			c.Eval(1)
			if !ok2 {
				hangs++
				c.Inconclusive("directed " + shape + ": barrier watchdog, class " + hangClass(dump))
				return
			}
			_, got, errs := s.Take()
			c.Count("events_received", int64(len(got)))
			if len(got) > 0 {
				c.Distinct("directed", shape, isDir, k, withParent)
			}
			for _, e := range errs {
				c.Violate(errSig(e.Error()), fmt.Sprintf("%s (dir=%v, %d events pending, parent watched=%v) put %q on Errors; history: %v", shape, isDir, k, withParent, e, s.Tail(12)), s.Tail(30))
			}
			if i < len(shapes) {
				c.Sample(map[string]interface{}{"shape": shape, "history": s.Tail(12), "received": got, "errors_seen": len(errs)})
			}
		}()
	}
	if c.Batch < c.Pick(2, 6) {
		c10Overflow(c, c.Batch)
	}
	for i := 0; i < c.Pick(6, 30); i++ {
		rng, ok := c.CaseRng(9800+i, "watches with restricted operation sets end")
		if !ok {
			continue
		}
		dir, done := caseDir(c, 9800+i)
		c10RestrictedOps(c, rng, dir, i)
		done()
	}
	if c.Only < 0 {
		c10OtherReadFaults(c)
	}
	if c.Batch%4 == 3 {
		closeRace(c, 9700, true, false)
	}
	if c.Batch >= 8 && c.Batch-8 < len(faultWhens) && c.Only < 0 {
		when := faultWhens[c.Batch-8]
		if _, ok := c.CaseRng(9500, "injected read error when="+when); ok {
			r, inj, ok := runFault(c, when)
			if ok {
				c.Count("fault_sessions", 1)
				c.Count("reads_made_to_fail", int64(inj))
				c.Eval(1)
				c.Distinct("fault", when)
				if inj > 0 && len(r.Errors) == 0 {
					c.Violate("genuine-failure-not-reported", fmt.Sprintf("%d read(2) calls on the inotify descriptor failed with EIO (injected, when=%s) and nothing arrived on Errors", inj, when), r)
				}
				if !r.ErrorsAreEIO {
					c.Violate("wrong-error-reported", fmt.Sprintf("errors reported for an injected EIO do not wrap it: %v", r.Errors), r)
				}
				if r.Events < r.Expected || !r.LateEventSeen || r.AddAfter != "" || r.RemoveAfter != "" {
					c.Violate("watcher-did-not-survive-read-error", fmt.Sprintf("after %d injected read errors: %d of %d events delivered, event of a directory added afterwards seen=%v, Add=%q Remove=%q", inj, r.Events, r.Expected, r.LateEventSeen, r.AddAfter, r.RemoveAfter), r)
				}
				if c.Batch == 8 {
					c.Sample(map[string]interface{}{"injected_read_errors": inj, "session": r})
				}
			}
		}
	}
}

// c10OtherReadFaults: the read paths of readEvents that no test reaches. The injected call is not executed,
// so nothing is lost: (EINTR) an interrupted read is not a failure - nothing on Errors, everything delivered;
// (return value 0 / 8) end-of-file and a short read are failures that must be reported, and the Watcher must
// go on afterwards.
func c10OtherReadFaults(c *core.Ctx) {
	specs := []struct{ spec, when, wantErr string }{
		{"error=EINTR", "1..3", ""}, {"error=EINTR", "2+2", ""},
		{"retval=0", "2", "EOF"}, {"retval=8", "2", "short read"}, {"retval=8", "1..2", "short read"},
	}
	for i, sp := range specs {
		if c.Batch != i+2 {
			continue
		}
		if _, ok := c.CaseRng(9600+i, "injected read "+sp.spec+" when="+sp.when); !ok {
			continue
		}
		r, inj, ok := runFaultSpec(c, sp.spec, sp.when)
		if !ok {
			continue
		}
		c.Count("other_read_fault_sessions", 1)
		c.Count("reads_tampered_with", int64(inj))
		c.Eval(1)
		c.Distinct("readfault", sp.spec, sp.when)
		if sp.wantErr == "" && len(r.Errors) > 0 {
			c.Violate(errSig(r.Errors[0]), fmt.Sprintf("%d read(2) calls on the inotify descriptor were interrupted (EINTR injected, when=%s) - not a failure - and %v arrived on Errors", inj, sp.when, r.Errors), r)
		}
		if sp.wantErr != "" && inj > 0 {
			found := false
			for _, e := range r.Errors {
				if strings.Contains(e, sp.wantErr) {
					found = true
				}
			}
			if !found {
				c.Violate("genuine-failure-not-reported", fmt.Sprintf("%d read(2) calls returned %s (injected, when=%s); Errors carried %v, nothing mentioning %q", inj, sp.spec, sp.when, r.Errors, sp.wantErr), r)
			}
		}
		if r.Events < r.Expected || !r.LateEventSeen || r.AddAfter != "" || r.RemoveAfter != "" {
			c.Violate("watcher-did-not-survive-read-error", fmt.Sprintf("after %d tampered reads (%s): %d of %d events delivered, event of a directory added afterwards seen=%v, Add=%q Remove=%q", inj, sp.spec, r.Events, r.Expected, r.LateEventSeen, r.AddAfter, r.RemoveAfter), r)
		}
	}
}

// c10RestrictedOps: a watch whose operation set lacks Remove and/or Rename (the unexported option, through the
// hook) ends with IN_IGNORED only - the one notification the library then has to clean up by itself. Whatever it
// does for that, the kernel has already dropped the watch: nothing may arrive on Errors.
func c10RestrictedOps(c *core.Ctx, rng *rand.Rand, dir string, idx int) {
	w, err := fsnotify.NewBufferedWatcher(uint([]int{0, 8}[rng.Intn(2)]))
	if err != nil {
		c.Broken(err.Error())
		return
	}
	defer w.Close()
	base := filepath.Join(dir, "t")
	sd := filepath.Join(dir, "s")
	os.MkdirAll(base, 0o755)
	os.MkdirAll(sd, 0o755)
	var mu sync.Mutex
	var errs []string
	sent := make(chan string, 64)
	go func() {
		ev, er := w.Events, w.Errors
		for ev != nil || er != nil {
			select {
			case e, ok := <-ev:
				if !ok {
					ev = nil
				} else if filepath.Dir(e.Name) == sd {
					sent <- e.Name
				}
			case e, ok := <-er:
				if !ok {
					er = nil
				} else {
					mu.Lock()
					errs = append(errs, e.Error())
					mu.Unlock()
				}
			}
		}
	}()
	w.Add(sd)
	sets := []fsnotify.Op{fsnotify.Write | fsnotify.Chmod, fsnotify.Create | fsnotify.Write, fsnotify.Chmod, fsnotify.Write | fsnotify.Rename, fsnotify.Create | fsnotify.Remove}
	var hist []string
	for k := 0; k < 6; k++ {
		isDir := rng.Intn(3) == 0
		p := filepath.Join(base, fmt.Sprint("x", k))
		if isDir {
			os.Mkdir(p, 0o755)
		} else {
			os.WriteFile(p, nil, 0o644)
		}
		ops := sets[rng.Intn(len(sets))]
		if err := w.AddWith(p, fsnotify.VerifWithOps(ops)); err != nil {
			c.Broken(err.Error())
			return
		}
		how := []string{"delete", "rename-then-delete", "rename-away"}[rng.Intn(3)]
		hist = append(hist, fmt.Sprintf("AddWith(x%d, %s) %s", k, ops, how))
		switch how {
		case "delete":
			os.Remove(p)
		case "rename-then-delete":
			os.Rename(p, p+"~")
			os.Remove(p + "~")
		case "rename-away":
			os.Rename(p, p+"~")
		}
	}
	mark := filepath.Join(sd, "m")
	os.WriteFile(mark, nil, 0o644)
	t := time.NewTimer(twin.WatchdogTimeout)
	defer t.Stop()
	for done := false; !done; {
		select {
		case n := <-sent:
			done = n == mark
		case <-t.C:
			c.Inconclusive("restricted-ops history: barrier watchdog " + hangClass(core.AllStacks()))
			return
		}
	}
	c.Count("restricted_ops_histories", 1)
	c.Eval(1)
	c.Distinct("restricted-ops", idx, c.Batch)
	mu.Lock()
	defer mu.Unlock()
	if len(errs) > 0 {
		c.Violate(errSig(errs[0]), fmt.Sprintf("watches with restricted operation sets whose paths were deleted/renamed put %q on Errors; history %v", errs, hist), hist)
	}
}

func c10Overflow(c *core.Ctx, idx int) {
	_, ok := c.CaseRng(9000+idx, "overflow x2")
	if !ok {
		return
	}
	dir, done := caseDir(c, 9000+idx)
	defer done()
	s, err := twin.NewSession(dir, []int{-1, 8}[idx%2])
	if err != nil {
		c.Broken(err.Error())
		return
	}
	defer s.Close()
	d := filepath.Join(s.Base, "d")
	os.Mkdir(d, 0o755)
	s.W.Add(d)
	mq := maxQueued()
	factor := []float64{1.1, 2, 1.1, 2, 8, 4}[idx%6]
	for round := 0; round < 2; round++ {
		s.Pause(true)
		total := int(float64(mq) * factor)
		for k := 0; k < total; k++ {
			p := filepath.Join(d, fmt.Sprintf("r%d-%d", round, k))
			os.WriteFile(p, nil, 0o644)
			if k%2 == 0 {
				os.Remove(p)
			}
		}
		// subsequent events queued behind the still unread overflow marker (the consumer first
		// takes 4000 events so that the kernel accepts notifications again)
		base0 := atomic.LoadInt64(&s.Received)
		s.Pause(false)
		for i := 0; i < 200000 && atomic.LoadInt64(&s.Received)-base0 < 4000; i++ {
			time.Sleep(50 * time.Microsecond)
		}
		s.Pause(true)
		var probes []string
		for k := 0; k < 4; k++ {
			pp := filepath.Join(d, fmt.Sprintf("behind-marker-r%d-%d", round, k))
			os.WriteFile(pp, nil, 0o644)
			probes = append(probes, pp)
		}
		ok2, dump := s.Barrier()
		if !ok2 {
			c.Violate("overflow-not-survived", fmt.Sprintf("round %d: no sentinel delivered after the overflow (%s)", round, hangClass(dump)), dumpExcerpt(dump))
			return
		}
		_, got, errs := s.Take()
		seenProbe := map[string]bool{}
		for _, e := range got {
			seenProbe[e.Name] = true
		}
		c.Count("events_received", int64(len(got)))
		nOvf := 0
		for _, e := range errs {
			if errors.Is(e, fsnotify.ErrEventOverflow) {
				nOvf++
			} else {
				c.Violate(errSig(e.Error()), "overflow burst produced another error: "+e.Error(), nil)
			}
		}
		c.Count("overflow_cases", 1)
		c.Count("overflow_errors_seen", int64(nOvf))
		c.Eval(1)
		c.Distinct("ovf", idx, round)
		if nOvf == 1 {
			for _, pp := range probes {
				c.Count("events_behind_the_overflow_marker_checked", 1)
				if !seenProbe[pp] {
					c.Violate("lost-after-overflow", fmt.Sprintf("round %d: a change made while the overflow marker was still unread, after part of the queue had been consumed, was never delivered (%s); one ErrEventOverflow", round, filepath.Base(pp)), nil)
					break
				}
			}
		}
		if nOvf == 0 {
			c.Violate("overflow-not-announced", fmt.Sprintf("round %d: %d notifications queued with a paused consumer (limit %d), %d events delivered, no ErrEventOverflow", round, total*3/2, mq, len(got)), nil)
		}
		// watcher keeps working: Add, events, Remove
		e2 := filepath.Join(s.Base, fmt.Sprintf("e%d", round))
		os.Mkdir(e2, 0o755)
		if err := s.W.Add(e2); err != nil {
			c.Violate("add-after-overflow", fmt.Sprintf("Add after overflow: %v", err), nil)
		}
		os.WriteFile(filepath.Join(e2, "f"), nil, 0o644)
		if ok3, dump := s.Barrier(); !ok3 {
			c.Violate("overflow-not-survived", "barrier after Add failed: "+hangClass(dump), dumpExcerpt(dump))
			return
		}
		_, got, errs = s.Take()
		seen := false
		for _, e := range got {
			if e.Name == filepath.Join(e2, "f") {
				seen = true
			}
		}
		if !seen {
			c.Violate("lost-after-overflow", "event for a directory added after the overflow never arrived", nil)
		}
		for _, e := range errs {
			if !errors.Is(e, fsnotify.ErrEventOverflow) {
				c.Violate(errSig(e.Error()), "after overflow: "+e.Error(), nil)
			}
		}
		if err := s.W.Remove(e2); err != nil {
			c.Violate("remove-after-overflow", fmt.Sprintf("Remove after overflow: %v", err), nil)
		}
	}
}
