package checks

import (
	"fmt"
	"math/rand"
	"os"
	"path/filepath"
	"sync"
	"sync/atomic"
	"time"

	"github.com/fsnotify/fsnotify"

	"harness/core"
	"harness/twin"
)

func init() {
	core.Register(&core.Check{
		ID:    "C05",
		Level: "exploration",
		Rule: "E-proc: histories that leave events and/or an error pending (burst larger than the buffer, rename-then-delete / rename-then-rmdir of watched files and directories with the reader held back, delete of a watched directory with contents, many watches, moves in from / out to / within with unmatched halves, watches spelled relative to the working directory that are then deleted/renamed, a stream of renames that is consumed while 150 rounds of control calls run, a recursive watch (not yet public; switched on through the hook) under which directories are created and removed again before the reader registers them, a real queue overflow with the consumer gated until the burst is complete and the control calls started only once the reader has reached the overflow record) " +
			"x consumer behaviour {both channels, only Events, only Errors, neither, stops after k} x buffer {default,0,1,64,4096}; then a battery of control calls (Add of a new path, WatchList, Remove, 1-8 concurrent Close with Add/Remove/WatchList racing them, Close twice) each under a watchdog, with PRNG delays injected at the verif yield points. " +
			"Structural oracle: the lock probe at every send must find the Watcher's lock free (or held by a tracked API call); behavioural oracle: a control call that has not returned at the watchdog is a violation only when the goroutine dump shows the deadlock signature (a send parked below handleEvent/AddWith with the lock held and the call parked in Mutex.Lock; or the call parked on a channel/condition while the reader is parked in a send nobody receives; or - same state in two dumps 2 s apart - a goroutine running inside a lock-holding function while the call waits for the lock). " +
			"distinct_nontrivial = distinct (history shape, consumer, buffer) cases in which >=1 send was probed",
		Assumptions: []string{"'bounded time' is restated as: returned before the watchdog, or the dump decides; a bare watchdog expiry is inconclusive", "the reader goroutine and the tracked API calls are the only users of the lock"},
		Batches:     func(t string) int { return map[string]int{"quick": 16, "thorough": 64}[t] },
		RaceBatches: func(t string) int { return map[string]int{"quick": 2, "thorough": 16}[t] },
		MustObserve: []string{"sends_probed", "control_calls_returned", "close_calls_returned", "pending_error_histories"},
		Run:         runC05,
	})
}

var c05shapes = []string{"burst", "rename-then-delete", "rename-then-rmdir", "delete-dir-with-contents", "many-watches", "overflow", "rename-delete-many", "moves-in-out-within", "relative-paths", "recursive-mkdir-rmdir", "rename-stream"}
var c05consumers = []string{"both", "only-events", "only-errors", "neither", "stops-after-k"}

func runC05(c *core.Ctx) {
	n := c.Pick(25, 100)
	if c.Race {
		n = c.Pick(10, 40)
	}
	var a apiTrack
	var st probeStats
	for i := 0; i < n; i++ {
		rng, ok := c.CaseRng(i, "pending history x consumer x buffer")
		if !ok {
			continue
		}
		installProbeHooks(&a, &st, rng.Int63(), true)
		dir, done := caseDir(c, i)
		stop := c05Case(c, rng, dir, i, &a, &st)
		done()
		if stop {
			break
		}
	}
	fsnotify.VerifSetHooks(nil)
	c.Count("sends_probed", atomic.LoadInt64(&st.sends))
	c.Count("sends_that_found_the_lock_contended", atomic.LoadInt64(&st.contended))
	st.points.Range(func(k, v interface{}) bool {
		c.Hist("yield_point_hits", k.(string), atomic.LoadInt64(v.(*int64)))
		return true
	})
}

func c05Case(c *core.Ctx, rng *rand.Rand, dir string, idx int, a *apiTrack, st *probeStats) (stop bool) {
	shape := c05shapes[(idx+c.Batch)%len(c05shapes)]
	if shape == "overflow" && !(c.Batch%4 == 0 && idx < len(c05shapes)) {
		shape = "rename-then-delete"
	}
	cons := c05consumers[rng.Intn(len(c05consumers))]
	if shape == "overflow" { // the reader must get as far as the overflow record: Events is drained
		cons = []string{"only-events", "both"}[(c.Batch/4)%2]
	}
	if shape == "rename-stream" {
		cons = "both"
	}
	if shape == "recursive-mkdir-rmdir" {
		// the (not yet public) recursive watch registers new directories from the reader goroutine;
		// a directory that is gone again by then makes that fail: an error becomes pending
		fsnotify.VerifSetRecurse(true)
		defer fsnotify.VerifSetRecurse(false)
		if rng.Intn(2) == 0 {
			cons = "only-events"
		}
	}
	buf := []int{-1, 0, 1, 64, 4096}[rng.Intn(5)]
	params := fmt.Sprintf("shape=%s consumer=%s buffer=%d", shape, cons, buf)
	var w *fsnotify.Watcher
	var err error
	if buf < 0 {
		w, err = fsnotify.NewWatcher()
	} else {
		w, err = fsnotify.NewBufferedWatcher(uint(buf))
	}
	if err != nil {
		c.Broken(err.Error())
		return true
	}
	under0 := atomic.LoadInt64(&st.underLock)
	sends0 := atomic.LoadInt64(&st.sends)
	errSends0 := atomic.LoadInt64(&st.errSends)
	// consumer
	stopCons := make(chan struct{})
	consDone := make(chan struct{})
	var nev, nerr int64
	k := 1 + rng.Intn(20)
	gate := make(chan struct{}) // overflow: nobody receives until the burst is complete, so the kernel queue really overflows
	if shape != "overflow" {
		close(gate)
	}
	go func() {
		defer close(consDone)
		select {
		case <-gate:
		case <-stopCons:
			return
		}
		evc, erc := w.Events, w.Errors
		switch cons {
		case "only-events":
			erc = nil
		case "only-errors":
			evc = nil
		case "neither":
			evc, erc = nil, nil
		}
		for {
			select {
			case <-stopCons:
				return
			case _, ok := <-evc:
				if !ok {
					evc = nil
					if erc == nil {
						return
					}
					continue
				}
				if atomic.AddInt64(&nev, 1) >= int64(k) && cons == "stops-after-k" {
					evc, erc = nil, nil
				}
			case _, ok := <-erc:
				if !ok {
					erc = nil
					if evc == nil {
						return
					}
					continue
				}
				atomic.AddInt64(&nerr, 1)
			}
		}
	}()
	base := filepath.Join(dir, "t")
	os.MkdirAll(base, 0o755)
	d := filepath.Join(base, "d")
	os.Mkdir(d, 0o755)
	f := filepath.Join(base, "f")
	os.WriteFile(f, nil, 0o644)
	sub := filepath.Join(base, "sub")
	os.Mkdir(sub, 0o755)
	log := []string{}
	var lmu sync.Mutex
	api := func(what string, fn func() error) (err error, returned bool, dump string) {
		var e error
		ok, dmp := core.WithWatchdog(twin.WatchdogTimeout, func() { a.call(func() { e = fn() }) })
		lmu.Lock()
		if ok {
			log = append(log, fmt.Sprintf("%s=%v", what, e))
		} else {
			log = append(log, what+" NOT RETURNED")
		}
		lmu.Unlock()
		return e, ok, dmp
	}
	hung := func(what, dump string) bool {
		cls, dump := persistentHangClass(dump)
		if u := atomic.LoadInt64(&st.underLock) - under0; u > 0 {
			c.Violate("send-under-lock", fmt.Sprintf("[%s] %d channel sends were performed while the Watcher's lock was held by the sender itself (no API call in flight); history %v", params, u, log), log)
		}
		if cls == "deadlock:lock-order" {
			c.Violate("lock-order-deadlock", fmt.Sprintf("[%s] %s did not return: one goroutine waits for a second lock below a function that holds the Watcher's lock while the others wait for that one; history %v", params, what, log), dumpExcerpt(dump))
		} else if cls == "lock-leaked" {
			c.Violate("lock-never-released", fmt.Sprintf("[%s] %s did not return: goroutines wait for the Watcher's lock and no goroutine is inside a function that holds it; history %v", params, what, log), dumpExcerpt(dump))
		} else if cls == "lock-holder-busy" {
			c.Violate("lock-held-without-progress", fmt.Sprintf("[%s] %s did not return: a goroutine keeps running inside a function that holds the Watcher's lock (same state in two dumps 2 s apart, after the %v watchdog) while the call waits for that lock; history %v", params, what, twin.WatchdogTimeout, log), dumpExcerpt(dump))
		} else if cls == "api-waits-for-reader-parked-in-send" {
			c.Violate("control-call-waits-for-consumption", fmt.Sprintf("[%s] %s did not return: it waits (not for the lock) for the reader, which is parked in a send that nobody receives; history %v", params, what, log), dumpExcerpt(dump))
		} else if cls == "deadlock:send-under-lock+api-blocked" || cls == "send-under-lock" {
			c.Violate("control-call-blocked-on-consumption", fmt.Sprintf("[%s] %s did not return: %s; history %v", params, what, cls, log), dumpExcerpt(dump))
		} else {
			c.Inconclusive(fmt.Sprintf("[%s] %s not returned at the watchdog, dump class %s", params, what, cls))
		}
		return true
	}
	if _, ok, dump := api("Add(d)", func() error { return w.Add(d) }); !ok {
		return hung("Add(d)", dump)
	}
	api("Add(f)", func() error { return w.Add(f) })
	api("Add(sub)", func() error { return w.Add(sub) })
	var bgStop chan struct{}
	var bgDone sync.WaitGroup
	defer func() {
		if bgStop != nil {
			select {
			case <-bgStop:
			default:
				close(bgStop)
			}
			bgDone.Wait()
		}
	}()
	// --- the history that leaves things pending
	switch shape {
	case "burst":
		for k := 0; k < 50+rng.Intn(300); k++ {
			p := filepath.Join(d, fmt.Sprint("b", k))
			os.WriteFile(p, []byte("x"), 0o644)
			if k%3 == 0 {
				os.Remove(p)
			}
		}
	case "rename-then-delete":
		c.Count("pending_error_histories", 1)
		for k := 0; k < 1+rng.Intn(5); k++ {
			os.Chmod(f, 0o600) // holds the reader back in a send
		}
		time.Sleep(time.Duration(rng.Intn(3)) * time.Millisecond)
		g := filepath.Join(base, "g")
		os.Rename(f, g)
		os.Remove(g)
	case "rename-then-rmdir":
		c.Count("pending_error_histories", 1)
		os.Chmod(sub, 0o700)
		os.Chmod(sub, 0o755)
		g := filepath.Join(base, "sub2")
		os.Rename(sub, g)
		os.Remove(g)
	case "rename-delete-many":
		c.Count("pending_error_histories", 1)
		var fs []string
		for k := 0; k < 20; k++ {
			p := filepath.Join(base, fmt.Sprint("w", k))
			os.WriteFile(p, nil, 0o644)
			api("Add(w)", func() error { return w.Add(p) })
			fs = append(fs, p)
		}
		for _, p := range fs {
			os.Chmod(p, 0o600)
		}
		for _, p := range fs {
			os.Rename(p, p+"~")
			os.Remove(p + "~")
		}
	case "moves-in-out-within":
		// unmatched halves of moves (in from / out to an unwatched place) mixed with matched ones:
		// the rename bookkeeping runs while the reader holds the Watcher's lock
		un := filepath.Join(base, "unwatched")
		os.Mkdir(un, 0o755)
		for k := 0; k < 6+rng.Intn(20); k++ {
			a := filepath.Join(un, fmt.Sprint("x", k))
			os.WriteFile(a, nil, 0o644)
			b := filepath.Join(d, fmt.Sprint("in", k))
			os.Rename(a, b) // move in: IN_MOVED_TO without a matching IN_MOVED_FROM
			switch rng.Intn(3) {
			case 0:
				os.Rename(b, filepath.Join(d, fmt.Sprint("w", k))) // within
			case 1:
				os.Rename(b, filepath.Join(un, fmt.Sprint("out", k))) // out: unmatched IN_MOVED_FROM
			}
		}
		time.Sleep(time.Duration(rng.Intn(3)) * time.Millisecond)
	case "recursive-mkdir-rmdir":
		c.Count("pending_error_histories", 1)
		rt := filepath.Join(base, "rt")
		os.MkdirAll(filepath.Join(rt, "keep"), 0o755)
		api("Add(rt/...)", func() error { return w.Add(filepath.Join(rt, "...")) })
		for k := 0; k < 20+rng.Intn(60); k++ {
			p := filepath.Join(rt, []string{"", "keep"}[rng.Intn(2)], fmt.Sprint("n", k))
			os.Mkdir(p, 0o755)
			if rng.Intn(4) > 0 {
				os.Remove(p) // gone before the reader gets to register it
			}
		}
		time.Sleep(time.Duration(rng.Intn(3)) * time.Millisecond)
	case "rename-stream":
		// renames keep arriving (and are consumed) while the control calls run: the reader is inside its rename
		// bookkeeping again and again while Add/Remove/WatchList take the lock
		bgStop = make(chan struct{})
		bgDone.Add(1)
		go func() {
			defer bgDone.Done()
			pa, pb := filepath.Join(d, "ra"), filepath.Join(d, "rb")
			os.WriteFile(pa, nil, 0o644)
			for k := 0; ; k++ {
				select {
				case <-bgStop:
					return
				default:
				}
				if k%2 == 0 {
					os.Rename(pa, pb)
				} else {
					os.Rename(pb, pa)
				}
			}
		}()
	case "relative-paths":
		// watches spelled relative to the working directory (paths are stored as given), then deleted or
		// renamed while the reader is held back: the reader's bookkeeping walks these spellings
		c.Count("pending_error_histories", 1)
		os.Mkdir(filepath.Join(base, "reld"), 0o755)
		os.WriteFile(filepath.Join(sub, "rf"), nil, 0o644)
		os.WriteFile(filepath.Join(base, "rg"), nil, 0o644)
		os.Chdir(base)
		rel := []string{"sub/rf", "./reld/", "rg", "sub/../sub/rf"}
		for _, p := range rel {
			p := p
			api("Add("+p+")", func() error { return w.Add(p) })
		}
		os.Chdir("/")
		os.Chmod(f, 0o600)
		switch rng.Intn(3) {
		case 0:
			os.Remove(filepath.Join(sub, "rf"))
			os.Remove(filepath.Join(base, "reld"))
			os.Remove(filepath.Join(base, "rg"))
		case 1:
			os.Rename(filepath.Join(base, "rg"), filepath.Join(base, "rg2"))
			os.Remove(filepath.Join(base, "rg2"))
			os.Remove(filepath.Join(sub, "rf"))
		default:
			os.Remove(filepath.Join(base, "rg"))
			os.Rename(filepath.Join(base, "reld"), filepath.Join(base, "reld2"))
		}
		time.Sleep(time.Duration(rng.Intn(3)) * time.Millisecond)
	case "delete-dir-with-contents":
		for k := 0; k < 30; k++ {
			os.WriteFile(filepath.Join(sub, fmt.Sprint("c", k)), nil, 0o644)
		}
		os.RemoveAll(sub)
	case "many-watches":
		for k := 0; k < 100; k++ {
			p := filepath.Join(base, fmt.Sprint("m", k))
			os.Mkdir(p, 0o755)
			if _, ok, dump := api("Add(m)", func() error { return w.Add(p) }); !ok {
				return hung("Add(m)", dump)
			}
			os.WriteFile(filepath.Join(p, "x"), nil, 0o644)
		}
	case "overflow":
		c.Count("pending_error_histories", 1)
		c.Count("overflow_histories", 1)
		mq := maxQueued()
		for k := 0; k < mq+cap(w.Events)+2600; k++ { // the reader takes a buffer-full and a read-full out of the kernel queue meanwhile
			p := filepath.Join(d, fmt.Sprint("o", k))
			os.WriteFile(p, nil, 0o644)
		}
		close(gate)
		// Let the reader get as far as the overflow record before the control calls start. Logical condition:
		// a send that comes from sendError has begun (recognised on the call stack by the Send hook), or an
		// error was consumed, or the probe already saw a send under the lock. The cap only bounds a broken run.
		for i := 0; i < 150000; i++ {
			if atomic.LoadInt64(&nerr) > 0 || atomic.LoadInt64(&st.underLock) > under0 || atomic.LoadInt64(&st.errSends) > errSends0 {
				break
			}
			time.Sleep(100 * time.Microsecond)
		}
	}
	c.Note("after history: events consumed %d errors consumed %d underLock %d sends %d", atomic.LoadInt64(&nev), atomic.LoadInt64(&nerr), atomic.LoadInt64(&st.underLock)-under0, atomic.LoadInt64(&st.sends)-sends0)
	time.Sleep(time.Duration(rng.Intn(4)) * time.Millisecond)
	// --- control calls while things are pending
	nd := filepath.Join(base, "new")
	os.Mkdir(nd, 0o755)
	calls := []struct {
		n string
		f func() error
	}{
		{"Add(new)", func() error { return w.Add(nd) }},
		{"WatchList", func() error { w.WatchList(); return nil }},
		{"Remove(d)", func() error { return w.Remove(d) }},
		{"Add(d)", func() error { return w.Add(d) }},
		{"Remove(new)", func() error { return w.Remove(nd) }},
		// the unexported options, through the hook: same path, other follow mode / other operation set
		{"AddWith(d,no-follow)", func() error { return w.AddWith(d, fsnotify.VerifWithNoFollow()) }},
		{"AddWith(f,ops)", func() error { return w.AddWith(f, fsnotify.VerifWithOps(fsnotify.Write|fsnotify.Chmod)) }},
	}
	rng.Shuffle(len(calls), func(i, j int) { calls[i], calls[j] = calls[j], calls[i] })
	rounds := 1
	if shape == "rename-stream" {
		rounds = 150
	}
	for r := 0; r < rounds; r++ {
		for _, cl := range calls[:2+rng.Intn(6)] {
			_, ok, dump := api(cl.n, cl.f)
			if !ok {
				return hung(cl.n, dump)
			}
			c.Count("control_calls_returned", 1)
		}
	}
	if bgStop != nil {
		close(bgStop)
		bgDone.Wait()
	}
	// concurrent Close x 1..8 (with WatchList/Remove/Add racing them), then once more
	nc := 1 + rng.Intn(8)
	var wg sync.WaitGroup
	stopRace := make(chan struct{})
	var raceWG sync.WaitGroup
	for g := 0; g < 2; g++ {
		raceWG.Add(1)
		seed := rng.Int63()
		go func() {
			defer raceWG.Done()
			r := rand.New(rand.NewSource(seed))
			for k := 0; k < 300; k++ {
				select {
				case <-stopRace:
					return
				default:
				}
				switch r.Intn(3) {
				case 0:
					a.call(func() { w.WatchList() })
				case 1:
					a.call(func() { w.Remove(d) })
				default:
					a.call(func() { w.Add(d) })
				}
			}
		}()
	}
	var notRet int32
	var firstDump string
	var dmu sync.Mutex
	for k := 0; k < nc; k++ {
		wg.Add(1)
		go func() {
			defer wg.Done()
			_, ok, dump := api("Close", func() error { return w.Close() })
			if !ok {
				atomic.AddInt32(&notRet, 1)
				dmu.Lock()
				if firstDump == "" {
					firstDump = dump
				}
				dmu.Unlock()
			} else {
				c.Count("close_calls_returned", 1)
			}
		}()
	}
	wg.Wait()
	close(stopRace)
	if ok, dump := core.WithWatchdog(twin.WatchdogTimeout, raceWG.Wait); !ok {
		close(stopCons)
		return hung("an Add/Remove/WatchList call racing Close", dump)
	}
	close(stopCons)
	c.Eval(1)
	if atomic.LoadInt64(&st.sends) > sends0 {
		c.Distinct(shape, cons, buf)
	}
	c.Hist("shapes", shape, 1)
	c.Hist("consumers", cons, 1)
	if notRet > 0 {
		return hung(fmt.Sprintf("%d of %d concurrent Close calls", notRet, nc), firstDump)
	}
	if _, ok, dump := api("Close again", func() error { return w.Close() }); !ok {
		return hung("second Close", dump)
	}
	if u := atomic.LoadInt64(&st.underLock) - under0; u > 0 {
		c.Violate("send-under-lock", fmt.Sprintf("[%s] %d channel sends were performed while the Watcher's lock was held by the sender itself (no API call in flight): any control call would block until somebody receives; history %v", params, u, log), log)
	}
	if idx < 2 {
		c.Sample(map[string]interface{}{"params": params, "calls": log, "events_consumed": atomic.LoadInt64(&nev), "errors_consumed": atomic.LoadInt64(&nerr)})
	}
	return false
}
