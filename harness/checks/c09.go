package checks

import (
	"errors"
	"fmt"
	"math/rand"
	"os"
	"path/filepath"
	"strings"

	"github.com/fsnotify/fsnotify"

	"harness/core"
	"harness/twin"
)

func init() {
	core.Register(&core.Check{
		ID:    "C09",
		Level: "exploration",
		Rule: "E-twin + API probes: directed histories over {file,dir} x ending {delete, rename away, rename within parent, overwrite-by-rename, recreate} x parent {unwatched, watched same spelling, other spelling, via symlink, added after the unlink} x Add argument {direct, via symlink} x 0-3 descriptors held open and released in PRNG order, " +
			"then further operations (new file under the old name, changes to the moved file) and a re-Add. After the barrier that follows the ending: the path must be gone from WatchList, Remove must give ErrNonExistentWatch, no further event may come from that watch, re-Add must succeed and report the new file; " +
			"with descriptors held the watch must survive the unlink (Chmod reported) until the last close and then end with exactly one Remove for the file overall (semantic parent rule: suppressed only if a watch on the directory that holds the entry reported it). " +
			"Plus histories with a restricted operation set (also without Remove, so only IN_IGNORED announces the end) and a probe that calls WatchList at the very moment the Remove/Rename of the watched path is received. " +
			"distinct_nontrivial = distinct parameter combinations whose history delivered >=1 event",
		Assumptions: []string{"inode reading of 'the watched path is deleted/renamed' (DESIGN §4 preamble)", "kernel shadow = ground truth", "every Add/Remove is preceded by a barrier (strict schedule)"},
		Batches:     func(t string) int { return map[string]int{"quick": 12, "thorough": 48}[t] },
		MustObserve: []string{"histories", "watch_end_probes", "readds_checked", "held_descriptor_histories", "events_received"},
		Run:         runC09,
	})
}

func runC09(c *core.Ctx) {
	n := c.Pick(130, 650)
	for i := 0; i < n; i++ {
		rng, ok := c.CaseRng(i, "directed end-of-watch history")
		if !ok {
			continue
		}
		dir, done := caseDir(c, i)
		c09Case(c, rng, dir, i)
		done()
	}
	for i := 0; i < c.Pick(20, 100); i++ {
		rng, ok := c.CaseRng(100000+i, "end of watch with a restricted operation set / probed at the event")
		if !ok {
			continue
		}
		dir, done := caseDir(c, 100000+i)
		c09Ops(c, rng, dir, i)
		done()
	}
	for i := 0; i < c.Pick(12, 60); i++ {
		rng, ok := c.CaseRng(200000+i, "the working directory watched as '.' and deleted")
		if !ok {
			continue
		}
		dir, done := caseDir(c, 200000+i)
		c09Cwd(c, rng, dir, i)
		done()
	}
}

// c09Cwd: a directory watched under the relative spelling "." (its own lexical parent), optionally with an
// entry watched under its bare name ("g", lexical parent "."), is emptied and removed after the process has
// moved elsewhere: the kernel log decides what must be reported - one Remove for ".", the watch gone from
// WatchList, Remove(".") => ErrNonExistentWatch - and a later directory of the same name stays silent.
func c09Cwd(c *core.Ctx, rng *rand.Rand, dir string, idx int) {
	s, err := twin.NewSession(dir, []int{-1, 0, 16}[rng.Intn(3)])
	if err != nil {
		c.Broken(err.Error())
		return
	}
	defer s.Close()
	base := s.Base
	defer os.Chdir("/")
	os.Chdir(base)
	os.Mkdir("cw", 0o755)
	os.WriteFile("cw/g", nil, 0o644)
	withFile := rng.Intn(2) == 0
	dotSpell := []string{".", "./", "./.", "x/.."}[rng.Intn(4)]
	params := fmt.Sprintf("cwd-watch spelling=%q file-watched=%v", dotSpell, withFile)
	var rep twin.Report
	bad := false
	fail := func(sig, text string) {
		bad = true
		c.Violate(sig, fmt.Sprintf("[%s] %s; history %v", params, text, s.Tail(16)), map[string]interface{}{"params": params, "history": s.Tail(40)})
	}
	judge := func() bool {
		for _, d := range rep.Diffs {
			fail("stream-after-watch-end", "stream differs from the kernel log: "+d.Diff.String())
		}
		for _, l := range rep.ListDiffs {
			fail("watch-not-ended", l)
		}
		if rep.Hang != "" {
			c.Inconclusive("barrier watchdog: " + hangClass(rep.Hang))
			bad = true
		}
		rep.Diffs, rep.ListDiffs = nil, nil
		return !bad
	}
	os.Chdir(filepath.Join(base, "cw"))
	if dotSpell == "x/.." {
		os.Mkdir("x", 0o755)
	}
	e1 := s.AddStrict(&rep, dotSpell)
	var e2 error
	if withFile {
		e2 = s.AddStrict(&rep, "g")
	}
	os.Chdir(base)
	if e1 != nil || e2 != nil {
		c.Broken(fmt.Sprintf("setup Add failed: %v %v", e1, e2))
		return
	}
	if dotSpell == "x/.." {
		s.Rmdir("cw/x")
	}
	s.Creat("cw/e")
	s.Chmod("cw/g", 0o600)
	if rng.Intn(2) == 0 {
		s.Pause(true)
	}
	s.Unlink("cw/e")
	s.Unlink("cw/g")
	s.Rmdir("cw")
	s.Sync(&rep, true)
	c.Count("histories", 1)
	c.Count("cwd_watch_histories", 1)
	c.Eval(1)
	if !judge() {
		return
	}
	c.Count("watch_end_probes", 1)
	os.Chdir(base)
	if err := s.W.Remove("."); !errors.Is(err, fsnotify.ErrNonExistentWatch) {
		fail("remove-after-end", fmt.Sprintf("Remove(\".\") after the watched directory was deleted = %v, want ErrNonExistentWatch", err))
		return
	}
	s.Mkdir("cw")
	s.Creat("cw/g")
	s.Sync(&rep, true)
	if judge() && rep.Received > 0 {
		c.Distinct(params)
	}
}

// c09Ops: (a) the watch is added with an operation filter (possibly WITHOUT Remove, so the kernel
// reports the end of the watch with IN_IGNORED only) and its path is deleted or renamed away: the
// watch must end all the same; (b) at the very moment the consumer receives the Remove/Rename of
// the watched path itself, WatchList must no longer show it.
func c09Ops(c *core.Ctx, rng *rand.Rand, dir string, idx int) {
	s, err := twin.NewSession(dir, []int{-1, 0, 8}[rng.Intn(3)])
	if err != nil {
		c.Broken(err.Error())
		return
	}
	defer s.Close()
	os.Chdir(s.Base)
	sets := []fsnotify.Op{fsnotify.Create | fsnotify.Write | fsnotify.Remove | fsnotify.Rename | fsnotify.Chmod, fsnotify.Write, fsnotify.Write | fsnotify.Chmod | fsnotify.Rename,
		fsnotify.Create | fsnotify.Write, fsnotify.Chmod, fsnotify.Remove, fsnotify.Rename | fsnotify.Remove}
	ops := sets[idx%len(sets)]
	isDir := rng.Intn(3) == 0
	if isDir {
		os.Mkdir("x", 0o755)
	} else {
		os.WriteFile("x", nil, 0o644)
	}
	os.Mkdir("o", 0o755)
	var stillListed []string
	s.OnEvent = func(e twin.Ev) {
		if e.Name == "x" && e.Op&(fsnotify.Remove|fsnotify.Rename) != 0 {
			for _, p := range s.W.WatchList() {
				if p == "x" {
					stillListed = append(stillListed, e.String())
				}
			}
		}
	}
	if err := s.W.AddWith("x", fsnotify.VerifWithOps(ops)); err != nil {
		c.Broken("AddWith: " + err.Error())
		return
	}
	s.Logf("AddWith(x, %s)", ops)
	if rng.Intn(2) == 0 {
		os.Chmod("x", 0o700)
	}
	how := rng.Intn(3)
	switch how {
	case 0:
		os.Remove("x")
		s.Logf("remove x")
	case 1:
		os.Rename("x", "o/y")
		s.Logf("rename x o/y")
	case 2:
		os.Rename("x", "o/y")
		os.RemoveAll("o/y")
		s.Logf("rename x o/y; remove o/y")
	}
	if ok, dump := s.Barrier(); !ok {
		c.Inconclusive("barrier watchdog: " + hangClass(dump))
		return
	}
	c.Eval(1)
	c.Count("histories", 1)
	c.Count("restricted_op_set_histories", 1)
	c.Distinct("ops", uint32(ops), isDir, how)
	params := fmt.Sprintf("ops=%s dir=%v ending=%d", ops, isDir, how)
	// a rename is only noticed by the watch when Rename was requested (IN_MOVE_SELF); then, or when
	// the inode is gone (cases 0 and 2: IN_IGNORED at the latest), the watch must have ended
	ended := how != 1 || ops&fsnotify.Rename != 0
	listed := false
	for _, p := range s.W.WatchList() {
		if p == "x" {
			listed = true
		}
	}
	if ended && listed {
		c.Violate("watch-not-ended", fmt.Sprintf("[%s] the watched path is gone, the stream is quiescent, and WatchList still shows it; history %v", params, s.Tail(6)), s.Tail(10))
		return
	}
	if ended {
		c.Count("watch_end_probes", 1)
		if err := s.W.Remove("x"); !errors.Is(err, fsnotify.ErrNonExistentWatch) {
			c.Violate("remove-after-end", fmt.Sprintf("[%s] Remove of the ended watch = %v, want ErrNonExistentWatch; history %v", params, err, s.Tail(6)), s.Tail(10))
			return
		}
	}
	if len(stillListed) > 0 {
		c.Violate("listed-at-its-own-remove-event", fmt.Sprintf("[%s] when %v was received WatchList still showed the path", params, stillListed), s.Tail(10))
	}
	_, got, _ := s.Take()
	c.Count("events_received", int64(len(got)))
}

func c09Case(c *core.Ctx, rng *rand.Rand, dir string, idx int) {
	s, err := twin.NewSession(dir, []int{-1, 0, 16}[rng.Intn(3)])
	if err != nil {
		c.Broken(err.Error())
		return
	}
	defer s.Close()
	s.Sh.Lexical = false // C09 owns the semantic parent rule
	base := s.Base
	os.Chdir(base)
	os.Mkdir("p", 0o755)
	os.Mkdir("o", 0o755)
	os.Symlink("p", "pl")
	isDir := rng.Intn(4) == 0
	ending := []string{"delete", "rename-away", "rename-within", "overwrite-by-rename", "recreate", "rename-then-delete"}[rng.Intn(6)]
	parent := []string{"none", "same", "other-spelling", "symlink", "late"}[rng.Intn(5)]
	via := []string{"direct", "symlink"}[rng.Intn(4)/3]
	holds := 0
	if !isDir && rng.Intn(2) == 0 {
		holds = 1 + rng.Intn(3)
	}
	if parent == "late" && (holds == 0 || ending != "delete") {
		parent = "none"
	}
	if isDir && (ending == "overwrite-by-rename") {
		ending = "delete"
	}
	params := fmt.Sprintf("dir=%v ending=%s parent=%s via=%s holds=%d", isDir, ending, parent, via, holds)
	if isDir {
		os.Mkdir("p/x", 0o755)
	} else {
		os.WriteFile("p/x", nil, 0o644)
	}
	var rep twin.Report
	fail := func(sig, text string) {
		c.Violate(sig, fmt.Sprintf("[%s] %s; history %v", params, text, s.Tail(16)), map[string]interface{}{"params": params, "history": s.Tail(40)})
	}
	// d5sig: the recorded D5 findings are identified by the specific event that
	// is missing/duplicated: it must be the Remove of a path the translator
	// classified, in the matching direction; anything else stays "remove-count".
	d5sig := func(miss, extra []twin.Ev) string {
		sig := ""
		for _, e := range miss {
			k := ""
			for _, d := range s.Sh.D5s {
				if d.Path == e.Name && d.Kind != "parent-other-spelling" {
					k = d.Kind
				}
			}
			if k == "" || (sig != "" && sig != k) {
				return "remove-count"
			}
			sig = k
		}
		for _, e := range extra {
			k := ""
			for _, d := range s.Sh.D5s {
				if d.Path == e.Name && d.Kind == "parent-other-spelling" {
					k = d.Kind
				}
			}
			if k == "" || (sig != "" && sig != k) {
				return "remove-count"
			}
			sig = k
		}
		if sig == "" || len(miss)+len(extra) != 1 {
			return "remove-count"
		}
		return sig
	}
	stream := func() bool {
		for _, d := range rep.Diffs {
			miss, extra := d.Diff.Missing, d.Diff.Extra
			rmOnly := true
			for _, e := range append(append([]twin.Ev{}, miss...), extra...) {
				if e.Op&fsnotify.Remove == 0 {
					rmOnly = false
				}
			}
			if rmOnly && len(miss)+len(extra) > 0 {
				fail(d5sig(miss, extra), fmt.Sprintf("the file's removal was reported %s than exactly once: missing %v, extra %v", map[bool]string{true: "less", false: "more"}[len(miss) > 0], miss, extra))
			} else {
				fail("stream-after-watch-end", "stream differs from the kernel log: "+d.Diff.String())
			}
		}
		bad := len(rep.Diffs) > 0 || rep.Hang != "" || len(rep.ListDiffs) > 0
		for _, l := range rep.ListDiffs {
			fail("watch-not-ended", l)
		}
		if rep.Hang != "" {
			c.Inconclusive("barrier watchdog: " + hangClass(rep.Hang))
		}
		rep.Diffs, rep.ListDiffs = nil, nil
		return !bad
	}
	spellParent := map[string]string{"same": "p", "other-spelling": filepath.Join(base, "p"), "symlink": "pl"}
	if sp, ok := spellParent[parent]; ok {
		s.AddStrict(&rep, sp)
	}
	arg := "p/x"
	if via == "symlink" {
		os.Symlink("p/x", "lx")
		arg = "lx"
	}
	if rng.Intn(3) == 0 {
		arg = "./" + arg
	}
	if s.AddStrict(&rep, arg) != nil {
		c.Broken("setup Add failed: " + fmt.Sprint(rep))
		return
	}
	carg := filepath.Clean(arg)
	var fds []int
	readdedEarly := false
	for h := 0; h < holds; h++ {
		if fd, err := s.Hold("p/x"); err == nil {
			fds = append(fds, fd)
		}
	}
	if rng.Intn(2) == 0 {
		s.Pause(true)
	}
	switch ending {
	case "delete":
		if isDir {
			s.Rmdir("p/x")
		} else {
			s.Unlink("p/x")
		}
	case "rename-away":
		s.Rename("p/x", "o/y")
	case "rename-then-delete": // the kernel drops the watch before the reader (if it lags) has seen IN_MOVE_SELF
		s.Rename("p/x", "o/y")
		if isDir {
			s.Rmdir("o/y")
		} else {
			s.Chmod("o/y", 0o600)
			s.Unlink("o/y")
		}
	case "rename-within":
		s.Rename("p/x", "p/y")
	case "overwrite-by-rename":
		os.WriteFile("o/z", []byte("new"), 0o644)
		s.Rename("o/z", "p/x")
	case "recreate":
		if isDir {
			s.Rmdir("p/x")
			s.Mkdir("p/x")
		} else {
			s.Unlink("p/x")
			s.Creat("p/x")
		}
	}
	if holds > 0 && (ending == "delete" || ending == "recreate" || ending == "overwrite-by-rename") {
		c.Count("held_descriptor_histories", 1)
		// the watch must survive the unlink and have reported Chmod for it
		if !s.Sync(&rep, false) {
			stream()
			return
		}
		listed := false
		for _, p := range s.W.WatchList() {
			if p == carg {
				listed = true
			}
		}
		if !listed {
			fail("watch-ended-before-last-close", fmt.Sprintf("%q left WatchList although %d descriptors are still open", carg, len(fds)))
			return
		}
		if !isDir && len(fds) > 0 && rng.Intn(2) == 0 {
			// the file lives on without a name: changes made through the descriptor are still its changes
			s.TouchHeld(fds[rng.Intn(len(fds))], rng.Intn(2) == 0)
			c.Count("changes_through_a_descriptor_of_an_unlinked_file", 1)
		}
		if ending == "delete" && rng.Intn(2) == 0 {
			// an Add of the vanished name fails; the file (and its watch) lives on through the descriptor
			err := s.W.Add(arg)
			s.Logf("Add(%q)=%v (the name is gone)", arg, err)
			c.Count("failed_adds_of_an_unlinked_but_open_file", 1)
			if err == nil && via != "symlink" {
				fail("add-of-missing-path-succeeded", fmt.Sprintf("Add(%q) of a name that no longer exists returned nil", arg))
				return
			}
			still := false
			for _, p := range s.W.WatchList() {
				if p == carg {
					still = true
				}
			}
			if !still {
				fail("watch-ended-before-last-close", fmt.Sprintf("a failed Add(%q) removed the path from WatchList although %d descriptors still keep the file alive", arg, len(fds)))
				return
			}
		}
		if parent == "late" {
			s.AddStrict(&rep, "p")
		}
		// re-Add while the old inode is still held open: the listed path now names the NEW file,
		// so the watch must move there (the old one is released) and the new file be reported
		if (ending == "recreate" || ending == "overwrite-by-rename") && rng.Intn(2) == 0 {
			if s.AddStrict(&rep, arg) != nil {
				fail("re-add-failed", fmt.Sprintf("re-Add(%q) while the old inode is held open failed", arg))
				return
			}
			c.Count("readds_while_old_inode_held", 1)
			s.Chmod("p/x", 0o622)
			s.Write("p/x", 1)
			if !s.Sync(&rep, true) {
				stream()
				return
			}
			readdedEarly = true
		}
		for len(fds) > 0 {
			j := rng.Intn(len(fds))
			if len(fds) == 1 && rng.Intn(2) == 0 {
				s.Pause(true)
			}
			s.Release(fds[j])
			fds = append(fds[:j], fds[j+1:]...)
		}
	}
	for _, fd := range fds {
		s.Release(fd)
	}
	// --- the barrier that follows the ending
	s.Sync(&rep, true) // compares stream and WatchList vs the model (which dropped the watch)
	c.Count("histories", 1)
	c.Eval(1)
	if !stream() {
		return
	}
	if readdedEarly {
		// the path is watched again (new file): it must still be listed and still report
		s.Chmod("p/x", 0o633)
		s.Sync(&rep, true)
		if stream() && rep.Received > 0 {
			c.Distinct(params + " readded-early")
		}
		return
	}
	err = s.W.Remove(arg)
	c.Count("watch_end_probes", 1)
	if !errors.Is(err, fsnotify.ErrNonExistentWatch) {
		fail("remove-after-end", fmt.Sprintf("Remove(%q) after the watch ended = %v, want ErrNonExistentWatch", arg, err))
		return
	}
	// --- further operations: nothing may come from the ended watch
	if ending == "rename-away" || ending == "rename-within" {
		moved := map[string]string{"rename-away": "o/y", "rename-within": "p/y"}[ending]
		if isDir {
			s.Creat(moved + "/inner")
			s.Unlink(moved + "/inner")
		} else {
			s.Write(moved, 2)
			s.Chmod(moved, 0o600)
		}
	}
	if _, e := os.Lstat("p/x"); e != nil {
		if isDir {
			s.Mkdir("p/x")
		} else {
			s.Creat("p/x")
		}
	}
	if isDir {
		s.Creat("p/x/inner2")
	} else {
		s.Write("p/x", 1)
	}
	s.Sync(&rep, true)
	if !stream() {
		return
	}
	// --- re-Add watches the new file
	if via == "symlink" {
		// the link still points at p/x
	}
	if s.AddStrict(&rep, arg) != nil {
		fail("re-add-failed", fmt.Sprintf("re-Add(%q) failed", arg))
		return
	}
	c.Count("readds_checked", 1)
	if isDir {
		s.Creat("p/x/after-readd")
	} else {
		s.Chmod("p/x", 0o611)
	}
	ok, dump := s.Barrier()
	if !ok {
		c.Inconclusive("barrier watchdog: " + hangClass(dump))
		return
	}
	want, got, _ := s.Take()
	c.Count("events_received", int64(rep.Received+len(got)))
	d := twin.Compare(want, got)
	if !d.Empty() {
		rep.Diffs = append(rep.Diffs, twin.WindowDiff{Diff: d, Log: s.Tail(16)})
		stream()
		return
	}
	seen := false
	wantName := carg
	if isDir {
		wantName = carg + "/after-readd"
	}
	for _, e := range got {
		if e.Name == wantName {
			seen = true
		}
	}
	if !seen {
		fail("re-add-silent", fmt.Sprintf("after re-Add(%q) a change to the new file was not reported as %q (got %v)", arg, wantName, got))
		return
	}
	if rep.Received+len(got) > 0 {
		c.Distinct(params)
	}
	c.Hist("endings", ending, 1)
	c.Hist("parent_modes", parent, 1)
	if idx < 2 {
		c.Sample(map[string]interface{}{"params": params, "history": s.Tail(30)})
	}
	_ = strings.Join
}
