package checks

import (
	"fmt"
	"strconv"
	"strings"

	"github.com/fsnotify/fsnotify"

	"harness/core"
)

// definedOps is the reference table written from the documentation: the nine
// operations and the token Op.String prints for each.
var definedOps = []struct {
	Op   fsnotify.Op
	Name string
}{
	{fsnotify.Create, "CREATE"},
	{fsnotify.Write, "WRITE"},
	{fsnotify.Remove, "REMOVE"},
	{fsnotify.Rename, "RENAME"},
	{fsnotify.Chmod, "CHMOD"},
	{fsnotify.VerifUnportableOpen, "OPEN"},
	{fsnotify.VerifUnportableRead, "READ"},
	{fsnotify.VerifUnportableCloseWrite, "CLOSE_WRITE"},
	{fsnotify.VerifUnportableCloseRead, "CLOSE_READ"},
}

func allDefined() fsnotify.Op {
	var a fsnotify.Op
	for _, d := range definedOps {
		a |= d.Op
	}
	return a
}

// probeSets returns the 2^9 subsets of the defined operations.
func probeSets() []fsnotify.Op {
	out := make([]fsnotify.Op, 0, 512)
	for m := 0; m < 512; m++ {
		var o fsnotify.Op
		for i, d := range definedOps {
			if m&(1<<i) != 0 {
				o |= d.Op
			}
		}
		out = append(out, o)
	}
	return out
}

func init() {
	core.Register(&core.Check{
		ID:    "C16",
		Level: "exploration",
		Rule: "E-enum: the real Op.Has/Event.Has/Op.String/Event.String are executed on every Op value with the low 16 bits (x all 512 defined probe sets for Has) " +
			"plus PRNG values above; a case is one (value, probe) or one rendered value; distinct_nontrivial counts distinct Op values with at least one defined bit whose rendering was parsed back, plus distinct event names rendered",
		Assumptions: []string{"token names CREATE/WRITE/REMOVE/RENAME/CHMOD/OPEN/READ/CLOSE_WRITE/CLOSE_READ are the documented ones", "the 2^16..2^32 range is sampled, not enumerated"},
		Batches:     func(string) int { return 1 },
		MustObserve: []string{"has_evaluations", "strings_parsed", "event_strings_parsed"},
		Exhaustive:  true,
		Run:         runC16,
	})
}

func runC16(c *core.Ctx) {
	rng, ok := c.CaseRng(0, "enumeration")
	if !ok {
		return
	}
	probes := probeSets()
	defd := allDefined()
	// reference: set of defined bits must be nine distinct single bits
	if len(definedOps) != 9 {
		c.Broken("reference table")
	}
	// extra probes with high/undefined bits
	extra := []fsnotify.Op{0, ^fsnotify.Op(0), 1 << 31, 1 << 9, 1 << 15, 1 << 16}
	for i := 0; i < 64; i++ {
		extra = append(extra, fsnotify.Op(rng.Uint32()))
	}
	probesAll := append(append([]fsnotify.Op{}, probes...), extra...)

	// --- Has: exhaustive over the low 16 bits x probes
	nviol := 0
	for v := 0; v < 1<<16; v++ {
		o := fsnotify.Op(v)
		e := fsnotify.Event{Name: "n", Op: o}
		for _, h := range probesAll {
			want := o&h != 0
			got := o.Has(h)
			got2 := e.Has(h)
			if got != want || got2 != want {
				nviol++
				if nviol <= 5 {
					c.Violate("has-mismatch", fmt.Sprintf("Op(%#x).Has(%#x)=%v Event.Has=%v, sets intersect=%v", v, uint32(h), got, got2, want), map[string]interface{}{"op": v, "probe": uint32(h)})
				}
			}
		}
		c.Res.Counters["has_evaluations"] += int64(len(probesAll))
	}
	// sampled above 2^16
	nHigh := c.Pick(200000, 5000000)
	for i := 0; i < nHigh; i++ {
		o := fsnotify.Op(rng.Uint32())
		h := probesAll[rng.Intn(len(probesAll))]
		if rng.Intn(4) == 0 {
			h = fsnotify.Op(rng.Uint32())
		}
		want := o&h != 0
		if o.Has(h) != want || (fsnotify.Event{Op: o}).Has(h) != want {
			nviol++
			if nviol <= 5 {
				c.Violate("has-mismatch", fmt.Sprintf("Op(%#x).Has(%#x)=%v, sets intersect=%v", uint32(o), uint32(h), o.Has(h), want), map[string]interface{}{"op": uint32(o), "probe": uint32(h)})
			}
		}
	}
	c.Count("has_evaluations", int64(nHigh))
	c.Eval(1<<16*len(probesAll) + nHigh)

	// --- Op.String
	full := defd.String()
	fullTok := strings.Split(full, "|")
	pos := map[string]int{}
	for i, t := range fullTok {
		pos[t] = i
	}
	checkString := func(o fsnotify.Op) {
		s := o.String()
		var want []string
		for _, d := range definedOps {
			if o&d.Op != 0 {
				want = append(want, d.Name)
			}
		}
		if len(want) == 0 {
			if s != "[no events]" {
				c.Violate("string-empty", fmt.Sprintf("Op(%#x).String()=%q, want [no events]", uint32(o), s), uint32(o))
			}
			return
		}
		toks := strings.Split(s, "|")
		seen := map[string]int{}
		last := -1
		for _, t := range toks {
			seen[t]++
			p, known := pos[t]
			if !known {
				c.Violate("string-token", fmt.Sprintf("Op(%#x).String()=%q has token %q that the full rendering %q lacks", uint32(o), s, t, full), uint32(o))
				return
			}
			if p <= last {
				c.Violate("string-order", fmt.Sprintf("Op(%#x).String()=%q: token order differs from the order in %q", uint32(o), s, full), uint32(o))
				return
			}
			last = p
		}
		for _, w := range want {
			if seen[w] != 1 {
				c.Violate("string-token", fmt.Sprintf("Op(%#x).String()=%q: token %s appears %d times, want exactly once", uint32(o), s, w, seen[w]), uint32(o))
				return
			}
		}
		if len(toks) != len(want) {
			c.Violate("string-token", fmt.Sprintf("Op(%#x).String()=%q: %d tokens for %d defined operations present", uint32(o), s, len(toks), len(want)), uint32(o))
			return
		}
		c.Res.Counters["strings_parsed"]++
		if o&^defd != 0 && s != (o&defd).String() {
			c.Violate("string-undefined-bit", fmt.Sprintf("Op(%#x).String()=%q but without its undefined bits %q", uint32(o), s, (o&defd).String()), uint32(o))
		}
	}
	distinct := map[string]fsnotify.Op{}
	for _, p := range probes {
		s := p.String()
		if q, dup := distinct[s]; dup {
			c.Violate("string-ambiguous", fmt.Sprintf("defined sets %#x and %#x both render as %q", uint32(q), uint32(p), s), []uint32{uint32(q), uint32(p)})
		}
		distinct[s] = p
	}
	c.Count("distinct_renderings_of_512_defined_sets", int64(len(distinct)))
	for v := 0; v < 1<<16; v++ {
		checkString(fsnotify.Op(v))
		if fsnotify.Op(v)&defd != 0 {
			c.Distinct("op", v)
		}
	}
	// every single undefined bit flipped on top of every defined set
	for _, p := range probes {
		for b := 0; b < 32; b++ {
			bit := fsnotify.Op(1) << uint(b)
			if bit&defd != 0 {
				continue
			}
			if (p | bit).String() != p.String() {
				c.Violate("string-undefined-bit", fmt.Sprintf("bit %d changes the text: %q vs %q", b, (p|bit).String(), p.String()), uint32(p|bit))
			}
			c.Res.Counters["undefined_bit_flips"]++
		}
	}
	nS := c.Pick(1000000, 20000000)
	for i := 0; i < nS; i++ {
		checkString(fsnotify.Op(rng.Uint32()))
	}
	c.Eval(1<<16 + nS)

	// --- Event.String
	names := []string{"", "a", "/tmp/x y", `qu"ote`, "new\nline", "tab\t", "\xff\xfe bad utf8", "ünï/çødé", `back\slash`, " ← ", `" ← "`, strings.Repeat("n", 300), "\x00", "a\x00b"}
	for i := 0; i < c.Pick(300, 20000); i++ {
		b := make([]byte, rng.Intn(12))
		for j := range b {
			b[j] = byte(rng.Intn(256))
		}
		names = append(names, string(b))
	}
	sampled := 0
	for ni, n := range names {
		for _, from := range []string{"", names[(ni*7+3)%len(names)], "old"} {
			for k := 0; k < 24; k++ {
				o := probes[rng.Intn(len(probes))]
				if k == 0 {
					o = 0
				}
				ev := fsnotify.VerifEvent(n, o, from)
				s := ev.String()
				if err := parseEventString(s, o.String(), n, from); err != "" {
					c.Violate("event-string", fmt.Sprintf("Event{%q,%#x,from=%q}.String()=%q: %s", n, uint32(o), from, s, err), map[string]interface{}{"name": n, "op": uint32(o), "from": from})
				} else {
					c.Res.Counters["event_strings_parsed"]++
				}
				if sampled < 3 && from != "" && o != 0 {
					c.Sample(map[string]interface{}{"name": n, "op": uint32(o), "renamed_from": from, "rendered": s})
					sampled++
				}
			}
			c.Distinct("ev", n, from)
		}
	}
	c.Eval(len(names) * 3 * 24)
	c.Sample(map[string]interface{}{"op": uint32(defd), "rendered": full})
}

// parseEventString parses s back: op text padded to 13 columns, space, quoted
// name, and " ← " + quoted old name only when one is present.
func parseEventString(s, opText, name, from string) string {
	pad := opText
	for len([]rune(pad)) < 13 {
		pad += " "
	}
	if !strings.HasPrefix(s, pad+" ") {
		return fmt.Sprintf("does not start with the %%-13s-padded op text %q", pad)
	}
	rest := s[len(pad)+1:]
	q, err := strconv.QuotedPrefix(rest)
	if err != nil {
		return "name is not a quoted string"
	}
	got, _ := strconv.Unquote(q)
	if got != name {
		return fmt.Sprintf("name parses back as %q", got)
	}
	rest = rest[len(q):]
	if from == "" {
		if rest != "" {
			return fmt.Sprintf("trailing text %q without an old name", rest)
		}
		return ""
	}
	const arrow = " ← "
	if !strings.HasPrefix(rest, arrow) {
		return "old name missing"
	}
	rest = rest[len(arrow):]
	q2, err := strconv.QuotedPrefix(rest)
	if err != nil || len(q2) != len(rest) {
		return "old name is not exactly one quoted string"
	}
	got2, _ := strconv.Unquote(q2)
	if got2 != from {
		return fmt.Sprintf("old name parses back as %q", got2)
	}
	return ""
}
