package checks

import (
	"fmt"
	"math/rand"
	"os"
	"path/filepath"
	"sort"
	"strings"

	"github.com/fsnotify/fsnotify"

	"harness/core"
	"harness/twin"
)

func init() {
	core.Register(&core.Check{
		ID:    "C19",
		Level: "exploration",
		Rule: "E-twin with an ideal recursive shadow: the driver knows the tree, so the shadow holds a raw watch on every directory of every recursive root keyed by its TRUE current path (renames update it by path component), " +
			"adds a new directory right after its mkdir returned and its Create was delivered (barrier), ignores IN_MOVE_SELF. Trees whose siblings share string prefixes (dir1/dir10, sub/sub2, a/ab/abc) at several depths, 2-3 recursive roots of which one is removed mid-history; " +
			"mkdir one level at a time, renames of inner directories within the tree (also onto names that are prefixes of siblings, onto an existing empty directory, and re-creating a directory under a renamed directory's old name), file create/write/chmod/rename/unlink at every depth, rmdir; an inner directory renamed twice before anything of the first rename is delivered; in half of the histories an ordinary watch on a file inside the tree (its name follows renames above it; its own rename ends it under the old name). " +
			"Expected vs received as in C01-C03/C08; after Remove(root) nothing from that tree and everything from the others. distinct_nontrivial = distinct histories with >=1 inner-directory rename or root removal and >=1 compared event",
		Assumptions: []string{"WatchList() of a recursive watch is unspecified and not compared", "mkdir -p bursts and moves across the root are documented limitations and are not generated", "kernel shadow = ground truth"},
		Batches:     func(t string) int { return map[string]int{"quick": 12, "thorough": 48}[t] },
		MustObserve: []string{"events_received", "inner_dir_renames", "root_removals", "dirs_created_while_watched"},
		Run:         runC19,
	})
}

func runC19(c *core.Ctx) {
	fsnotify.VerifSetRecurse(true)
	defer fsnotify.VerifSetRecurse(false)
	n := c.Pick(30, 150)
	for i := 0; i < n; i++ {
		rng, ok := c.CaseRng(i, "recursive history")
		if !ok {
			continue
		}
		dir, done := caseDir(c, i)
		c19Case(c, rng, dir, i)
		done()
	}
}

func under(p, root string) bool { return p == root || strings.HasPrefix(p, root+"/") }

func c19Case(c *core.Ctx, rng *rand.Rand, dir string, idx int) {
	s, err := twin.NewSession(dir, []int{-1, 0, 64}[rng.Intn(3)])
	if err != nil {
		c.Broken(err.Error())
		return
	}
	defer s.Close()
	s.Sh.Recursive = true
	base := s.Base
	os.Chdir(base)
	abs := rng.Intn(2) == 0
	pfx := ""
	if abs {
		pfx = base + "/"
	}
	// initial tree with prefix-sharing siblings
	roots := []string{pfx + "dir1", pfx + "dir10"}
	if rng.Intn(2) == 0 {
		roots = append(roots, pfx+"dir")
	}
	dirs := map[string]bool{}
	for _, r := range roots {
		for _, d := range []string{"", "sub", "sub2", "sub/a", "sub/ab", "sub/abc", "sub2/a"} {
			p := filepath.Join(r, d)
			if d != "" && rng.Intn(4) == 0 {
				continue
			}
			if _, e := os.Stat(filepath.Dir(p)); e != nil {
				continue
			}
			os.Mkdir(p, 0o755)
			dirs[p] = true
		}
	}
	var rep twin.Report
	live := map[string]bool{} // roots still watched
	for _, r := range roots {
		if err := s.W.Add(r + "/..."); err != nil {
			c.Broken(fmt.Sprintf("Add(%s/...): %v", r, err))
			return
		}
		s.Logf("Add(%q)", r+"/...")
		live[r] = true
	}
	var dl []string
	for d := range dirs {
		dl = append(dl, d)
	}
	sort.Strings(dl)
	for _, d := range dl {
		if err := s.Sh.AddAs(d, d); err != nil {
			c.Broken("shadow: " + err.Error())
			return
		}
	}
	// an ordinary watch on a file INSIDE a recursive tree (the two kinds of watch share the tables): its
	// name must follow renames of the directories above it, and its own rename ends it under its old name
	plainFile := ""
	if rng.Intn(2) == 0 {
		d := dl[rng.Intn(len(dl))]
		plainFile = filepath.Join(d, "wf")
		s.Creat(plainFile)
		if err := s.W.Add(plainFile); err != nil {
			c.Broken(fmt.Sprintf("Add(%s): %v", plainFile, err))
			return
		}
		s.Logf("Add(%q)", plainFile)
		if err := s.Sh.AddAs(plainFile, plainFile); err != nil {
			c.Broken("shadow: " + err.Error())
			return
		}
		s.Sh.W[s.Sh.ByPath[plainFile]].Plain = true
		c.Count("histories_with_a_plain_file_watch_inside_the_tree", 1)
	}
	tolerateENOENT := false
	s.Sync(&rep, false)
	watched := func() []string { // directories of live roots
		var l []string
		for d := range dirs {
			for r := range live {
				if under(d, r) {
					l = append(l, d)
				}
			}
		}
		sort.Strings(l)
		return l
	}
	allDirs := func() []string {
		var l []string
		for d := range dirs {
			l = append(l, d)
		}
		sort.Strings(l)
		return l
	}
	names := []string{"f", "g", "sub", "sub2", "a", "ab", "abc", "s", "su", "dir1", "x", "wf", "wf"}
	renames, removals, mkdirs := 0, 0, 0
	steps := c.Pick(60, 160)
	removedOne := false
	for st := 0; st < steps && len(rep.Diffs) == 0 && rep.Hang == ""; st++ {
		ad := allDirs()
		if len(ad) == 0 {
			break
		}
		d := ad[rng.Intn(len(ad))]
		nm := names[rng.Intn(len(names))]
		p := filepath.Join(d, nm)
		switch k := rng.Intn(16); {
		case k <= 3:
			if !dirs[p] {
				s.Creat(p)
			}
		case k == 4:
			if !dirs[p] {
				s.Write(p, 1)
			}
		case k == 5:
			if !dirs[p] {
				s.Chmod(p, 0o600)
			}
		case k == 6:
			if !dirs[p] {
				s.Unlink(p)
			}
		case k == 7: // move a file between two directories of the tree(s)
			d2 := ad[rng.Intn(len(ad))]
			q := filepath.Join(d2, names[rng.Intn(len(names))])
			if !dirs[p] && !dirs[q] {
				s.Rename(p, q)
			}
		case k <= 9: // mkdir one level, then barrier, then the shadow covers it
			if _, e := os.Lstat(p); e == nil {
				break
			}
			if s.Mkdir(p) == nil {
				dirs[p] = true
				isLive := false
				for r := range live {
					if under(p, r) {
						isLive = true
					}
				}
				if !s.Sync(&rep, false) {
					break
				}
				if isLive {
					if err := s.Sh.AddAs(p, p); err != nil {
						c.Broken("shadow: " + err.Error())
						return
					}
					mkdirs++
				}
			}
		case k <= 12: // rename an inner directory within its root
			var inner []string
			for _, x := range ad {
				isRoot := false
				for _, r := range roots {
					if x == r {
						isRoot = true
					}
				}
				if !isRoot {
					inner = append(inner, x)
				}
			}
			if len(inner) == 0 {
				break
			}
			from := inner[rng.Intn(len(inner))]
			var root string
			for _, r := range roots {
				if under(from, r) {
					root = r
				}
			}
			// destination: a directory of the same root that is not inside `from`
			var cands []string
			for _, x := range ad {
				if under(x, root) && !under(x, from) {
					cands = append(cands, x)
				}
			}
			if len(cands) == 0 {
				break
			}
			to := filepath.Join(cands[rng.Intn(len(cands))], names[rng.Intn(len(names))])
			if rng.Intn(4) == 0 {
				// rename ONTO an existing empty directory of the tree (rename(2) replaces it)
				var empties []string
				for _, x := range cands {
					isRoot := false
					for _, r := range roots {
						if x == r {
							isRoot = true
						}
					}
					if ents, e := os.ReadDir(x); e == nil && len(ents) == 0 && !isRoot && x != from {
						empties = append(empties, x)
					}
				}
				if len(empties) > 0 {
					to = empties[rng.Intn(len(empties))]
				}
			}
			if under(to, from) || under(from, to) {
				break
			}
			if fi, e := os.Lstat(to); e == nil {
				ents, _ := os.ReadDir(to)
				if !fi.IsDir() || len(ents) > 0 {
					break
				}
				c.Count("renames_onto_an_existing_empty_directory", 1)
			}
			if !s.Sync(&rep, false) {
				break
			}
			_, ontoExisting := os.Lstat(to)
			mark := len(s.Want)
			if rng.Intn(2) == 0 {
				s.Pause(true) // nothing is delivered until the next barrier
			}
			if s.Rename(from, to) != nil {
				break
			}
			if ontoExisting == nil {
				// The replaced directory's own IN_ATTRIB (link count) is queued behind the
				// IN_MOVED_TO; by then the backend has already re-pointed that path to the moved
				// directory and dropped the victim's watch, so this Chmod of a directory that is
				// being destroyed is not reported. The statement does not ask for it: optional.
				kept := s.Want[:mark]
				for _, e := range s.Want[mark:] {
					if e.Name == to && e.Op == fsnotify.Chmod {
						continue
					}
					kept = append(kept, e)
				}
				s.Want = kept
			}
			// move the tree in the driver's and the shadow's books, by path component
			moveBooks := func(from, to string) {
				delete(dirs, to) // a replaced directory is gone (its watch ended with IN_DELETE_SELF)
				moved := map[string]bool{}
				for x := range dirs {
					if under(x, from) {
						delete(dirs, x)
						moved[to+x[len(from):]] = true
					}
				}
				for x := range moved {
					dirs[x] = true
				}
				for wd, sw := range s.Sh.W {
					if under(sw.Path, from) {
						delete(s.Sh.ByPath, sw.Path)
						sw.Path = to + sw.Path[len(from):]
						s.Sh.ByPath[sw.Path] = wd
					}
				}
			}
			moveBooks(from, to)
			if ontoExisting != nil && rng.Intn(3) == 0 {
				// and once more before anything of the first rename has been delivered: the directory the
				// reader is about to register under its intermediate name is already somewhere else
				to2 := to + "-again"
				if _, e := os.Lstat(to2); e != nil && s.Rename(to, to2) == nil {
					moveBooks(to, to2)
					tolerateENOENT = true
					c.Count("double_renames_before_delivery", 1)
				}
			}
			if live[root] {
				renames++
			}
			if !s.Sync(&rep, false) {
				break
			}
			// sometimes re-create a directory under the old name right away
			if rng.Intn(3) == 0 {
				if s.Mkdir(from) == nil {
					dirs[from] = true
					if !s.Sync(&rep, false) {
						break
					}
					if live[root] {
						s.Sh.AddAs(from, from)
						mkdirs++
					}
				}
			}
		case k == 13: // rmdir an empty inner directory
			isRoot := false
			for _, r := range roots {
				if d == r {
					isRoot = true
				}
			}
			if isRoot {
				break
			}
			if s.Rmdir(d) == nil {
				delete(dirs, d)
			}
		case k == 14: // remove one recursive root
			if removedOne || len(live) < 2 || st < steps/4 {
				break
			}
			var lr []string
			for r := range live {
				lr = append(lr, r)
			}
			sort.Strings(lr)
			r := lr[rng.Intn(len(lr))]
			if !s.Sync(&rep, false) {
				break
			}
			arg := r
			if rng.Intn(2) == 0 {
				arg = r + "/..."
			}
			err := s.W.Remove(arg)
			s.Logf("Remove(%q)=%v", arg, err)
			if err != nil {
				c.Violate("remove-root-failed", fmt.Sprintf("Remove(%q) of a recursive root = %v; history %v", arg, err, s.Tail(10)), s.Tail(40))
				return
			}
			for wd, sw := range s.Sh.W {
				if under(sw.Path, r) {
					s.Sh.Remove(sw.Path)
					_ = wd
				}
			}
			s.Sh.Drain()
			delete(live, r)
			removedOne = true
			removals++
		default:
			if rng.Intn(3) == 0 {
				s.Sync(&rep, false)
			}
		}
	}
	if len(rep.Diffs) == 0 && rep.Hang == "" {
		// touch every watched directory once more so silent (lost) watches show up
		for _, d := range watched() {
			s.Creat(filepath.Join(d, "final-probe"))
		}
		for d := range dirs {
			isLive := false
			for r := range live {
				if under(d, r) {
					isLive = true
				}
			}
			if !isLive {
				s.Creat(filepath.Join(d, "final-probe-unwatched"))
			}
		}
		s.Sync(&rep, false)
	}
	c.Eval(1)
	c.Count("events_received", int64(rep.Received))
	c.Count("inner_dir_renames", int64(renames))
	c.Count("root_removals", int64(removals))
	c.Count("dirs_created_while_watched", int64(mkdirs))
	c.Count("kernel_notifications_observed", int64(s.Sh.RawSeen))
	if rep.Received > 0 && renames+removals > 0 {
		c.Distinct(c.Batch, idx)
	}
	for _, d := range rep.Diffs {
		sig := "recursive-stream"
		switch {
		case len(d.Diff.Missing) > 0 && len(d.Diff.Extra) > 0:
			sig = "recursive-wrong-path"
		case len(d.Diff.Missing) > 0:
			sig = "recursive-lost-coverage"
		case len(d.Diff.Extra) > 0:
			sig = "recursive-extra-report"
		}
		c.Violate(sig, fmt.Sprintf("recursive watch (roots %v, live %v): %s; history tail %v", roots, keys(live), d.Diff, d.Log), d)
	}
	for _, e := range rep.Errors {
		if tolerateENOENT && strings.Contains(e, "no such file or directory") {
			// registering a directory under a name it no longer has fails; coverage is what is judged
			c.Count("registration_errors_after_a_double_rename", 1)
			continue
		}
		c.Violate("recursive-error:"+pathRe.ReplaceAllString(e, "<path>"), fmt.Sprintf("recursive history put %q on Errors; tail %v", e, s.Tail(12)), s.Tail(40))
	}
	if rep.Hang != "" {
		c.Inconclusive("barrier watchdog: " + hangClass(rep.Hang))
	}
	if idx == 0 {
		c.Sample(map[string]interface{}{"roots": roots, "history_tail": s.Tail(25), "events": rep.Received})
	}
}
