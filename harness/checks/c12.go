package checks

import (
	"errors"
	"fmt"
	"math/rand"
	"os"
	"path/filepath"
	"strings"

	"github.com/fsnotify/fsnotify"
	"golang.org/x/sys/unix"

	"harness/core"
	"harness/twin"
)

func init() {
	core.Register(&core.Check{
		ID:    "C12",
		Level: "exploration",
		Rule: "E-proc invariant at sentinel barriers: {wd in /proc/self/fdinfo of the inotify descriptor} == {keys of the wd table} and the path table is a bijection onto it and WatchList == its keys; " +
			"checked every k operations of PRNG programs over 4-6 names mixing Add/Remove (several spellings) with create, unlink, rename, hard link, mkdir, symlink/retarget, replace-by-rename, hold-open/release and re-Add " +
			"(incl. re-Add while the old inode lives on through a hard link or open descriptor); at the end everything listed is removed (each Remove must succeed, none may panic) and the mark count must be back at the start value (sentinel only). " +
			"In strict programs, right after every successful Add some kernel mark must be on the inode the path names now (identity, not only counts). " +
			"Plus the replace race (4 Watchers in parallel, hundreds of iterations each: delete or rename away the watched file, create a new one under the name, Add it again while an Add spammer and WatchList pollers contend for the lock and the reader works through the old file's notifications; after a sentinel barrier the file must be listed, backed by exactly one kernel mark and report one Chmod). " +
			"distinct_nontrivial = distinct programs with >=2 Adds that passed >=3 invariant checks with >=2 marks present",
		Assumptions: []string{"fdinfo lists every mark of the instance", "the invariant is read only at quiescent points (after a barrier), under the library's own lock"},
		Batches:     func(t string) int { return map[string]int{"quick": 10, "thorough": 40}[t] },
		MustObserve: []string{"invariant_checks", "invariant_checks_with_2plus_marks", "readds_of_listed_path", "cycles_back_to_start", "replace_race_iterations"},
		Run:         runC12,
	})
}

func runC12(c *core.Ctx) {
	n := c.Pick(30, 120)
	for i := 0; i < n; i++ {
		rng, ok := c.CaseRng(i, "cycle program")
		if !ok {
			continue
		}
		dir, done := caseDir(c, i)
		c12Case(c, rng, dir, i)
		done()
	}
	replaceRace(c, 5000000, "")
}

func c12Case(c *core.Ctx, rng *rand.Rand, dir string, idx int) {
	s, err := twin.NewSession(dir, []int{-1, 16}[rng.Intn(2)])
	if err != nil {
		c.Broken(err.Error())
		return
	}
	defer s.Close()
	base := s.Base
	os.Chdir(base)
	names := []string{"a", "b", "c", "d", "e", "f"}[:4+rng.Intn(3)]
	os.WriteFile("a", nil, 0o644)
	os.WriteFile("b", nil, 0o644)
	os.Mkdir("c", 0o755)
	var held []int
	defer func() {
		for _, fd := range held {
			unix.Close(fd)
		}
	}()
	every := []int{1, 3, 7, 20}[rng.Intn(4)]
	steps := c.Pick(300, 1500)
	strict := rng.Intn(4) > 0 // lagging programs skip the barrier before Add/Remove
	checks, good := 0, 0
	adds := 0
	failed := false
	check := func(when string) bool {
		ok, dump := s.Barrier()
		if !ok {
			c.Inconclusive("barrier watchdog: " + hangClass(dump))
			failed = true
			return false
		}
		bad, nm := twin.Invariant(s.W)
		checks++
		c.Count("invariant_checks", 1)
		if nm >= 3 { // sentinel + 2
			c.Count("invariant_checks_with_2plus_marks", 1)
			good++
		}
		c.Max("max_marks_at_a_check", int64(nm))
		if bad != "" {
			sig := "marks-vs-tables"
			switch {
			case strings.Contains(bad, "kernel marks"):
				sig = "kernel-mark-without-entry-or-entry-without-mark"
			case strings.Contains(bad, "no matching wd entry"):
				sig = "dangling-path-entry"
			}
			c.Violate(sig, fmt.Sprintf("%s: %s; history tail %v", when, bad, s.Tail(14)), s.Tail(60))
			failed = true
			return false
		}
		return true
	}
	api := func(kind, p string) {
		if strict {
			if ok, _ := s.Barrier(); !ok {
				failed = true
				return
			}
		}
		var err error
		var pan string
		if kind == "Add" {
			_, listed := pathListed(s, p)
			err, pan = twin.Protect(func() error { return s.W.Add(p) })
			adds++
			if listed && err == nil {
				c.Count("readds_of_listed_path", 1)
			}
			// identity, not only counts: right after a successful Add(p) some kernel mark of this
			// Watcher must be attached to the inode p names NOW (single-threaded driver: nothing
			// can have replaced p in between)
			// (strict programs only: with the reader lagging, an Add that overtakes the still-queued
			// IN_MOVE_SELF of the same inode is undone when that notification is processed —
			// bookkeeping and kernel agree again afterwards, which is all C12 states)
			if err == nil && pan == "" && strict {
				if ino := twin.InoOf(filepath.Clean(p)); ino != 0 {
					marks, merr := twin.KernelMarks(fsnotify.VerifInotifyFd(s.W))
					found := merr != nil
					for _, m := range marks {
						if m.Ino == ino {
							found = true
						}
					}
					c.Count("add_identity_checks", 1)
					if !found {
						c.Violate("listed-path-backed-by-wrong-inode", fmt.Sprintf("Add(%q) returned nil but no kernel watch of this Watcher is on inode %d, which the path names now (marks: %v); history tail %v", p, ino, marks, s.Tail(14)), s.Tail(60))
						failed = true
					}
				}
			}
		} else {
			err, pan = twin.Protect(func() error { return s.W.Remove(p) })
		}
		s.Logf("%s(%q)=%v", kind, p, err)
		if pan != "" {
			c.Violate("panic-in-"+kind, fmt.Sprintf("%s(%q) panicked: %s; history tail %v", kind, p, pan, s.Tail(14)), s.Tail(60))
			failed = true
		}
	}
	for i := 0; i < steps && !failed; i++ {
		p, q := names[rng.Intn(len(names))], names[rng.Intn(len(names))]
		switch rng.Intn(14) {
		case 0, 1, 2:
			api("Add", twin.Spell(rng, base, p))
		case 3:
			sp := twin.Spell(rng, base, p)
			if l := s.WatchList(); len(l) > 0 && rng.Intn(2) == 0 {
				sp = l[rng.Intn(len(l))]
			}
			api("Remove", sp)
		case 4:
			fd, err := unix.Open(p, unix.O_CREAT|unix.O_EXCL|unix.O_WRONLY, 0o644)
			if err == nil {
				unix.Close(fd)
			}
			s.Logf("creat %s", p)
		case 5:
			if fi, e := os.Lstat(p); e == nil && fi.IsDir() {
				unix.Rmdir(p)
				s.Logf("rmdir %s", p)
			} else {
				unix.Unlink(p)
				s.Logf("unlink %s", p)
			}
		case 6, 7:
			err := unix.Rename(p, q)
			s.Logf("rename %s %s => %v", p, q, err)
		case 8:
			err := unix.Link(p, q)
			s.Logf("link %s %s => %v", p, q, err)
		case 9:
			unix.Mkdir(p, 0o755)
			s.Logf("mkdir %s", p)
		case 10:
			fd, err := unix.Open(p, unix.O_RDONLY, 0)
			if err == nil {
				held = append(held, fd)
				s.Logf("hold %s", p)
			}
		case 11:
			if len(held) > 0 {
				unix.Close(held[0])
				held = held[1:]
				s.Logf("release")
			}
		case 12: // retarget: p becomes a symlink to q
			if fi, e := os.Lstat(p); e == nil && !fi.IsDir() {
				unix.Unlink(p)
				err := unix.Symlink(q, p)
				s.Logf("symlink %s <- %s => %v", q, p, err)
			}
		case 13: // replace by rename from a temp file
			tmp := "tmp~"
			fd, err := unix.Open(tmp, unix.O_CREAT|unix.O_WRONLY, 0o644)
			if err == nil {
				unix.Close(fd)
				err = unix.Rename(tmp, p)
				s.Logf("replace-by-rename %s => %v", p, err)
			}
		}
		if i%every == 0 {
			check(fmt.Sprintf("step %d", i))
		}
	}
	if !failed && check("end of program") {
		// complete the cycle: remove everything listed; usage must return to the start
		for _, p := range s.WatchList() {
			err, pan := twin.Protect(func() error { return s.W.Remove(p) })
			if pan != "" {
				c.Violate("panic-in-Remove", fmt.Sprintf("final Remove(%q) panicked: %s; tail %v", p, pan, s.Tail(14)), s.Tail(60))
				failed = true
			} else if err != nil && !errors.Is(err, fsnotify.ErrNonExistentWatch) {
				c.Violate("remove-of-listed-path-failed", fmt.Sprintf("final Remove(%q) of a listed path = %v; tail %v", p, err, s.Tail(14)), s.Tail(60))
				failed = true
			}
		}
		if !failed && check("after removing everything listed") {
			marks, _ := twin.KernelMarks(fsnotify.VerifInotifyFd(s.W))
			wdT, pathT := fsnotify.VerifTables(s.W)
			if len(marks) != 1 || len(wdT) != 1 || len(pathT) != 1 {
				c.Violate("usage-not-back-at-start", fmt.Sprintf("after removing everything listed: %d kernel marks, %d wd entries, %d path entries (start: 1 each, the sentinel); tail %v", len(marks), len(wdT), len(pathT), s.Tail(14)), s.Tail(60))
			} else {
				c.Count("cycles_back_to_start", 1)
			}
		}
	}
	c.Eval(1)
	c.Count("api_adds", int64(adds))
	if adds >= 2 && good >= 3 {
		c.Distinct(c.Batch, idx)
	}
	if idx == 0 {
		c.Sample(map[string]interface{}{"strict": strict, "check_every": every, "invariant_checks": checks, "history_tail": s.Tail(20)})
	}
}

func pathListed(s *twin.Session, sp string) (string, bool) {
	cp := filepath.Clean(sp)
	for _, p := range s.W.WatchList() {
		if p == cp {
			return cp, true
		}
	}
	return cp, false
}
