package checks

import (
	"errors"
	"fmt"
	"os"
	"path/filepath"
	"runtime"
	"strconv"
	"strings"
	"sync/atomic"
	"time"

	"github.com/fsnotify/fsnotify"

	"harness/core"
	"harness/twin"
)

func init() {
	core.Register(&core.Check{
		ID:    "C01",
		Level: "exploration",
		Rule: "E-twin: PRNG programs of 150-800 primitive syscalls (creat/write/truncate/chmod/utimes/unlink/rmdir/rm -r/rename/mkdir/link/symlink/hold-unlink-release) over 2-6 watched directories, " +
			"watched files, an unwatched directory and a symlinked directory, interleaved with Add/Remove under every spelling; a raw inotify shadow drained after every syscall gives the exact kernel notification list, " +
			"a reference translator the expected events; at each sentinel barrier an expected event with no received counterpart is a violation. Consumer pauses make reads return multi-event batches. " +
			"Directed cases: a watched path replaced while its old inode lives on, re-added, then changed; two directly watched files flooded with >4096 name-less notifications (a read of exactly 64 KiB). " +
			"Plus a forced kernel-queue overflow (with probes queued behind the still unread overflow marker): the received stream must be a gap-free prefix, ErrEventOverflow must be announced, later events must flow. " +
			"distinct_nontrivial = distinct programs (by case seed, op kinds used) that delivered >=1 compared event and used >=2 op kinds",
		Assumptions: []string{"a shadow inotify instance attached to the same inodes receives the same notifications in the same order (kernel fsnotify groups)", "strict mode: the reader has caught up (barrier) before every Add/Remove"},
		Batches:     func(t string) int { return map[string]int{"quick": 16, "thorough": 64}[t] },
		RaceBatches: func(t string) int { return map[string]int{"quick": 2, "thorough": 16}[t] },
		AsanBatches: func(t string) int { return map[string]int{"quick": 0, "thorough": 2}[t] },
		MustObserve: []string{"events_received", "windows_compared", "multi_event_reads", "overflow_cases"},
		Run:         runC01,
	})
}

func twinConfig(c *core.Ctx, rng interface{ Intn(int) int }) twin.Config {
	cfg := twin.Config{
		Steps:     150 + rng.Intn(c.Pick(350, 650)),
		Dirs:      2 + rng.Intn(5),
		BufSize:   []int{-1, 0, 1, 64, 4096}[rng.Intn(5)],
		LongNames: rng.Intn(2) == 0,
		NNames:    4 + rng.Intn(8),
		PauseBias: []int{0, 1, 2, 4}[rng.Intn(4)],
		SyncEvery: []int{8, 25, 80, 400, 5000}[rng.Intn(5)],
		AddBias:   []int{0, 1, 3}[rng.Intn(3)],
		Nested:    rng.Intn(2) == 0,
		PreAdd:    1 + rng.Intn(3),
	}
	if rng.Intn(5) == 0 { // deep backlog: thousands of notifications in one read
		cfg.Steps = 1500 + rng.Intn(2500)
		cfg.AddBias, cfg.SyncEvery, cfg.StartPaused, cfg.PauseBias = 0, 1000000, true, 0
		cfg.PreAdd = cfg.Dirs
	}
	if rng.Intn(6) == 0 {
		cfg.Delay = time.Duration(rng.Intn(200)) * time.Microsecond
	}
	return cfg
}

func runC01(c *core.Ctx) {
	if c.Thorough() { // the batching of notifications into reads depends on how reader and consumer are scheduled
		p := []int{16, 1, 2, 4}[c.Batch%4]
		runtime.GOMAXPROCS(p)
		c.Hist("gomaxprocs", fmt.Sprint(p), 1)
	}
	installStatHooks()
	defer flushHookStats(c)
	if c.Batch == 0 {
		c01Overflow(c)
	}
	n := c.Pick(40, 150)
	if c.Race {
		n = c.Pick(10, 40)
	}
	hangs := 0
	for i := 0; i < n && hangs < 2; i++ {
		rng, ok := c.CaseRng(i, "twin program")
		if !ok {
			continue
		}
		cfg := twinConfig(c, rng)
		cfg.KeepGoing = true
		dir, done := caseDir(c, i)
		rep := twin.RunProgram(rng, dir, cfg)
		done()
		c.Eval(1)
		reportStats(c, rep)
		if rep.Broken != "" {
			c.Broken(rep.Broken)
			continue
		}
		if nontrivial(rep) {
			c.Distinct(c.Batch, i, opKindsKey(rep))
		}
		for _, d := range rep.Diffs {
			if len(d.Diff.Missing) > 0 {
				c.Violate("lost-event", fmt.Sprintf("expected %v never received (no overflow announced); history tail: %v", d.Diff.Missing, d.Log), d)
			}
		}
		if rep.Hang != "" {
			hangs++
			cls := hangClass(rep.Hang)
			if cls == "sentinel-name-mangled" {
				c.Violate("lost-event", "the sentinel's Create was delivered under a wrong name, i.e. not with the name of that entry: "+rep.Hang, rep.HangLog)
			} else if cls == "reader-idle-event-never-delivered" {
				c.Violate("lost-sentinel", "the sentinel's Create was never delivered although the reader is idle in read(2): "+strings.Join(rep.HangLog, "; "), dumpExcerpt(rep.Hang))
			} else {
				c.Inconclusive("barrier watchdog fired, dump class " + cls + " (not a C01 signature)")
				c.Note("dump: %s", rep.Hang)
			}
		}
		if len(rep.Diffs) == 0 && i%4 == 0 {
			c.Sample(map[string]interface{}{"config": cfg, "history_tail": rep.FinalLog, "events_received": rep.Received, "kernel_notifications": rep.RawSeen})
		}
	}
	for i := 0; i < c.Pick(8, 30) && hangs < 2; i++ {
		rng, ok := c.CaseRng(200000+i, "directed re-point then change")
		if !ok {
			continue
		}
		dir, done := caseDir(c, 200000+i)
		c01Repoint(c, rng, dir)
		done()
	}
	if c.Batch%4 == 1 {
		if rng, ok := c.CaseRng(300000, "name-less flood filling a whole read buffer"); ok {
			dir, done := caseDir(c, 300000)
			namelessFlood(c, rng, dir)
			done()
		}
	}
	hs.mu.Lock()
	multi := int64(0)
	for k, v := range hs.readHist {
		if k != "1 event" && k != "<=0" {
			multi += v
		}
	}
	hs.mu.Unlock()
	c.Count("multi_event_reads", multi)
}

func maxQueued() int {
	b, err := os.ReadFile("/proc/sys/fs/inotify/max_queued_events")
	if err != nil {
		return 16384
	}
	n, _ := strconv.Atoi(strings.TrimSpace(string(b)))
	if n <= 0 {
		return 16384
	}
	return n
}

// c01Overflow forces a real kernel queue overflow with the consumer paused.
// The k-th create is named f<k>: the received Creates must be 0..m-1 without a
// gap (prefix), an ErrEventOverflow must arrive, and a later sentinel and a
// later ordinary event must be delivered.
func c01Overflow(c *core.Ctx) {
	rng, ok := c.CaseRng(100000, "forced queue overflow")
	if !ok {
		return
	}
	_ = rng
	dir, done := caseDir(c, 100000)
	defer done()
	s, err := twin.NewSession(dir, []int{-1, 16}[int(c.Seed)%2])
	if err != nil {
		c.Broken("overflow session: " + err.Error())
		return
	}
	defer s.Close()
	d := filepath.Join(s.Base, "d")
	os.Mkdir(d, 0o755)
	if err := s.W.Add(d); err != nil {
		c.Broken(err.Error())
		return
	}
	var rep twin.Report
	if !s.Sync(&rep, false) {
		c.Inconclusive("overflow: initial barrier failed")
		return
	}
	s.Pause(true)
	mq := maxQueued()
	total := mq + mq/8 + 100
	for k := 0; k < total; k++ {
		os.WriteFile(filepath.Join(d, fmt.Sprintf("f%d", k)), nil, 0o644) // create (+ no modify: empty)
	}
	// Drain a part of the queue, so that the kernel accepts notifications again while the
	// overflow marker is still unread, and make changes in that window: they are queued BEHIND
	// the marker, were not lost by the kernel, and therefore must be delivered.
	base0 := atomic.LoadInt64(&s.Received)
	s.Pause(false)
	for i := 0; i < 200000 && atomic.LoadInt64(&s.Received)-base0 < 5000; i++ {
		time.Sleep(50 * time.Microsecond)
	}
	s.Pause(true)
	var probes []string
	for k := 0; k < 5; k++ {
		p := filepath.Join(d, fmt.Sprintf("probe-behind-marker-%d", k))
		os.WriteFile(p, nil, 0o644)
		probes = append(probes, p)
	}
	ok2, dump := s.Barrier()
	if !ok2 {
		c.Violate("overflow-not-survived", "no sentinel was delivered after a queue overflow: "+hangClass(dump), dumpExcerpt(dump))
		return
	}
	_, got, errs := s.Take()
	seenProbe := map[string]bool{}
	for _, e := range got {
		if strings.Contains(e.Name, "probe-behind-marker-") {
			seenProbe[e.Name] = true
		}
	}
	nOvf := 0
	for _, e := range errs {
		if errors.Is(e, fsnotify.ErrEventOverflow) {
			nOvf++
		}
	}
	next := 0
	gap := ""
	for _, e := range got {
		if e.Op&fsnotify.Create == 0 || strings.Contains(e.Name, "probe-behind-marker-") {
			continue
		}
		want := filepath.Join(d, fmt.Sprintf("f%d", next))
		if e.Name != want && gap == "" {
			gap = fmt.Sprintf("create #%d is %q, want %q", next, e.Name, want)
		}
		next++
	}
	c.Count("overflow_cases", 1)
	c.Count("overflow_events_delivered_before_loss", int64(next))
	c.Count("overflow_errors_seen", int64(nOvf))
	c.Eval(1)
	c.Distinct("overflow", total)
	if gap != "" {
		c.Violate("overflow-gap", "events delivered before the overflow are not a gap-free prefix: "+gap, nil)
	}
	if next < total && nOvf == 0 {
		c.Violate("silent-loss", fmt.Sprintf("%d of %d creates were delivered and no ErrEventOverflow was announced", next, total), nil)
	}
	if next >= total {
		c.Inconclusive("overflow was not reached")
	}
	if nOvf == 1 { // a second marker would mean the kernel really dropped something again
		for _, p := range probes {
			c.Count("overflow_probes_behind_marker", 1)
			if !seenProbe[p] {
				c.Violate("lost-event", fmt.Sprintf("a file created after 5000 of the queued events had been consumed (so the kernel queued its notification, behind the still unread overflow marker) was never reported: %s; one ErrEventOverflow in total", filepath.Base(p)), nil)
				break
			}
		}
	}
	// afterwards events flow again
	os.WriteFile(filepath.Join(d, "after"), nil, 0o644)
	if ok3, dump := s.Barrier(); !ok3 {
		c.Violate("overflow-not-survived", "second barrier after overflow failed: "+hangClass(dump), dumpExcerpt(dump))
		return
	}
	_, got, _ = s.Take()
	found := false
	for _, e := range got {
		if e.Name == filepath.Join(d, "after") && e.Op&fsnotify.Create != 0 {
			found = true
		}
	}
	if !found {
		c.Violate("lost-event", "Create of an entry made after the overflow had been announced was never delivered", nil)
	}
}

// c01Repoint: a watched path is replaced by another file while its old inode lives on (hard link,
// open descriptor, or a symlink retargeted), the path is added again, and then the NEW file is
// changed: those changes are changes to a watched path and must be reported.
func c01Repoint(c *core.Ctx, rng interface{ Intn(int) int }, dir string) {
	s, err := twin.NewSession(dir, []int{-1, 0, 16}[rng.Intn(3)])
	if err != nil {
		c.Broken(err.Error())
		return
	}
	defer s.Close()
	os.Chdir(s.Base)
	rep := twin.Report{KeepGoing: true}
	os.WriteFile("f", nil, 0o644)
	os.WriteFile("g", nil, 0o644)
	os.Symlink("f", "l")
	path := "f"
	how := rng.Intn(4)
	if how == 3 {
		path = "l"
	}
	if s.AddStrict(&rep, path) != nil {
		return
	}
	if rng.Intn(2) == 0 {
		s.Pause(true)
	}
	fd := -1
	switch how {
	case 0: // hard link keeps the old inode, rename-onto replaces the path
		s.Link("f", "keep")
		s.Rename("g", "f")
	case 1: // open descriptor keeps it, unlink + recreate
		fd, _ = s.Hold("f")
		s.Unlink("f")
		s.Creat("f")
	case 2: // hard link, unlink + recreate
		s.Link("f", "keep")
		s.Unlink("f")
		s.Creat("f")
	case 3: // the symlink is retargeted
		s.Unlink("l")
		s.Symlink("g", "l")
	}
	if s.AddStrict(&rep, path) != nil {
		return
	}
	target := map[bool]string{true: "g", false: "f"}[how == 3]
	s.Write(target, 2)
	s.Chmod(target, 0o600)
	if fd >= 0 {
		s.Release(fd)
	}
	s.Write(target, 1)
	s.Sync(&rep, false)
	c.Eval(1)
	c.Count("directed_repoint_cases", 1)
	c.Count("events_received", int64(rep.Received))
	c.Count("windows_compared", int64(rep.Windows))
	c.Distinct("repoint", how, rep.Received > 0)
	for _, d := range rep.Diffs {
		if len(d.Diff.Missing) > 0 {
			c.Violate("lost-event", fmt.Sprintf("after re-adding a replaced path (variant %d) changes to the new file were not reported: missing %v; history %v", how, d.Diff.Missing, d.Log), d)
		}
	}
}

// namelessFlood: two files watched directly; with the consumer paused, > 4096 alternating
// attribute changes queue name-less 16-byte notifications (alternating watches, so the kernel
// cannot merge them): a read returns exactly 4096 of them, the last one ending at byte 65536.
func namelessFlood(c *core.Ctx, rng interface{ Intn(int) int }, dir string) {
	s, err := twin.NewSession(dir, []int{-1, 0, 1, 2}[rng.Intn(4)])
	if err != nil {
		c.Broken(err.Error())
		return
	}
	defer s.Close()
	os.Chdir(s.Base)
	rep := twin.Report{KeepGoing: true}
	os.WriteFile("f1", nil, 0o644)
	os.WriteFile("f2", nil, 0o644)
	s.AddStrict(&rep, "f1")
	s.AddStrict(&rep, "f2")
	s.Sync(&rep, false)
	s.Pause(true)
	n := 4096 + 200 + rng.Intn(300)
	for k := 0; k < n; k++ {
		s.Chmod([]string{"f1", "f2"}[k%2], uint32(0o600+k%8))
	}
	s.Sync(&rep, false)
	c.Eval(1)
	c.Count("nameless_flood_cases", 1)
	c.Count("events_received", int64(rep.Received))
	c.Count("windows_compared", int64(rep.Windows))
	c.Distinct("nameless-flood", n)
	for _, d := range rep.Diffs {
		if len(d.Diff.Missing) > 0 {
			c.Violate("lost-event", fmt.Sprintf("%d name-less notifications queued while the consumer was paused: %d expected events never arrived (first %v)", n, len(d.Diff.Missing), d.Diff.Missing[0]), nil)
		}
	}
	if rep.Hang != "" {
		c.Inconclusive("name-less flood: barrier watchdog, " + hangClass(rep.Hang))
	}
}
