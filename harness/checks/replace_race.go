package checks

import (
	"fmt"
	"math/rand"
	"os"
	"path/filepath"
	"runtime"
	"sort"
	"sync"
	"sync/atomic"
	"time"

	"github.com/fsnotify/fsnotify"

	"harness/core"
	"harness/twin"
)

// replaceRace: "a file is watched from a successful Add" must also hold when that Add races the reader
// goroutine's bookkeeping for the file that had the same name before.
//
// Per Watcher (several run in parallel): a worker loops
//
//	delete (or rename away) the watched file a; create a new file a; jitter; Add(a) -> must be nil
//	sentinel barrier (a Create in a second watched directory: the kernel queue is ordered, so when it
//	has been received the reader has handled every notification of the old file)
//	judge: a is in WatchList, WatchList has exactly {a, sentinel dir}, the kernel has exactly two marks,
//	       and a chmod of a is reported once
//
// while an Add(a) spammer (only between the delete and the return of the worker's Add, so that it cannot
// repair a lost watch before the judgement) and WatchList pollers contend for the Watcher's lock: a reader
// that gives up the lock between looking a watch up and acting on it is parked right there.
// Nothing but the worker ever removes a, so on a correct tree every judgement is deterministic.
func replaceRace(c *core.Ctx, caseNo int, sigPrefix string) {
	rng, ok := c.CaseRng(caseNo, "replace-and-re-Add racing the reader")
	if !ok {
		return
	}
	nw := 4
	iters := c.Pick(400, 3000)
	if c.Race {
		iters = c.Pick(150, 800)
	}
	var inHandleDuringAPI int64
	var a apiTrack
	fsnotify.VerifSetHooks(&fsnotify.VerifHooks{Point: func(name string, n int) {
		if name == "inotify.handle" && atomic.LoadInt64(&a.started) != atomic.LoadInt64(&a.finished) {
			atomic.AddInt64(&inHandleDuringAPI, 1)
		}
	}})
	defer fsnotify.VerifSetHooks(nil)
	dir, done := caseDir(c, caseNo)
	defer done()
	var wg sync.WaitGroup
	var vmu sync.Mutex
	violated := false
	for wi := 0; wi < nw; wi++ {
		wg.Add(1)
		seed := rng.Int63()
		base := filepath.Join(dir, fmt.Sprint("rr", wi))
		go func(wi int) {
			defer wg.Done()
			r := rand.New(rand.NewSource(seed))
			os.MkdirAll(filepath.Join(base, "s"), 0o755)
			w, err := fsnotify.NewBufferedWatcher(uint([]int{0, 0, 16, 256}[wi%4]))
			if err != nil {
				c.Broken(err.Error())
				return
			}
			defer w.Close()
			pa := filepath.Join(base, "a")
			ps := filepath.Join(base, "s")
			os.WriteFile(pa, nil, 0o644)
			sent := make(chan string, 64)
			var chmods int64
			go func() {
				for {
					select {
					case e, ok := <-w.Events:
						if !ok {
							return
						}
						if filepath.Dir(e.Name) == ps {
							sent <- e.Name
						} else if e.Name == pa && e.Op&fsnotify.Chmod != 0 {
							atomic.AddInt64(&chmods, 1)
						}
					case _, ok := <-w.Errors:
						if !ok {
							return
						}
					}
				}
			}()
			if err := w.Add(ps); err != nil {
				c.Broken(err.Error())
				return
			}
			if err := w.Add(pa); err != nil {
				c.Broken(err.Error())
				return
			}
			var spamOn, stop int32
			var bg sync.WaitGroup
			bg.Add(1)
			go func() { // Add spammer
				defer bg.Done()
				for atomic.LoadInt32(&stop) == 0 {
					if atomic.LoadInt32(&spamOn) == 1 {
						a.call(func() { w.Add(pa) })
					} else {
						runtime.Gosched()
					}
				}
			}()
			for k := 0; k < 2; k++ {
				bg.Add(1)
				go func() { // WatchList pollers
					defer bg.Done()
					for atomic.LoadInt32(&stop) == 0 {
						w.WatchList()
					}
				}()
			}
			defer func() { atomic.StoreInt32(&stop, 1); bg.Wait() }()
			barrier := func(tag string) bool {
				nm := filepath.Join(ps, tag)
				os.WriteFile(nm, nil, 0o644)
				defer os.Remove(nm)
				t := time.NewTimer(twin.WatchdogTimeout)
				defer t.Stop()
				for {
					select {
					case got := <-sent:
						if got == nm {
							return true
						}
					case <-t.C:
						return false
					}
				}
			}
			for it := 0; it < iters; it++ {
				variant := []string{"delete", "rename-away"}[r.Intn(2)]
				atomic.StoreInt32(&spamOn, 1)
				if variant == "delete" {
					os.Remove(pa)
				} else {
					os.Rename(pa, pa+".old")
				}
				os.WriteFile(pa, nil, 0o644)
				for j := r.Intn(40); j > 0; j-- {
					runtime.Gosched()
				}
				var aerr error
				a.call(func() { aerr = w.Add(pa) })
				atomic.StoreInt32(&spamOn, 0)
				os.Remove(pa + ".old")
				c.Count("replace_race_iterations", 1)
				if aerr != nil {
					vmu.Lock()
					c.Violate(sigPrefix+"add-of-existing-file-failed", fmt.Sprintf("watcher %d iteration %d (%s): Add of the re-created file returned %v", wi, it, variant, aerr), nil)
					violated = true
					vmu.Unlock()
					return
				}
				if !barrier(fmt.Sprint("b", it)) {
					c.Inconclusive(fmt.Sprintf("replace race: barrier watchdog, class %s", hangClass(core.AllStacks())))
					return
				}
				l := w.WatchList()
				sort.Strings(l)
				marks, merr := twin.KernelMarks(fsnotify.VerifInotifyFd(w))
				bad := ""
				if len(l) != 2 || l[0] != pa || l[1] != ps {
					bad = fmt.Sprintf("WatchList=%q, want [a s]", l)
				} else if merr == nil && len(marks) != 2 {
					bad = fmt.Sprintf("WatchList=%q but the kernel holds %d marks", l, len(marks))
				}
				if bad == "" && it%8 == 0 { // probe: the listed path has a live watch
					c0 := atomic.LoadInt64(&chmods)
					os.Chmod(pa, 0o600+os.FileMode(it%2))
					if !barrier(fmt.Sprint("p", it)) {
						c.Inconclusive("replace race: barrier watchdog")
						return
					}
					c.Count("replace_race_probes", 1)
					if n := atomic.LoadInt64(&chmods) - c0; n != 1 {
						bad = fmt.Sprintf("a chmod of the listed file produced %d Chmod events", n)
					}
				}
				if bad != "" {
					_, byPath := fsnotify.VerifTables(w)
					vmu.Lock()
					c.Violate(sigPrefix+"watch-lost-after-successful-add", fmt.Sprintf("watcher %d iteration %d (%s a; create a; Add(a)=nil racing the reader; all notifications of the old file handled): %s; tables %v; kernel marks %d", wi, it, variant, bad, len(byPath), len(marks)), map[string]interface{}{"watcher": wi, "iteration": it, "variant": variant})
					violated = true
					vmu.Unlock()
					return
				}
			}
		}(wi)
	}
	wg.Wait()
	c.Count("reader_handled_a_record_while_an_api_call_was_in_flight", atomic.LoadInt64(&inHandleDuringAPI))
	c.Eval(1)
	if !violated && atomic.LoadInt64(&inHandleDuringAPI) > 0 {
		c.Distinct("replace-race", caseNo)
	}
}
