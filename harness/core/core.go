// Package core is the driver/child plumbing shared by every check: batches run
// in child processes, results are merged, violations are matched against
// known_findings.json, evidence is written.
package core

import (
	"bytes"
	"context"
	"encoding/json"
	"fmt"
	"hash/fnv"
	"math/rand"
	"os"
	"os/exec"
	"path/filepath"
	"regexp"
	"runtime"
	"sort"
	"strconv"
	"strings"
	"sync"
	"syscall"
	"time"
)

// VerifDir is where MANIFEST.json, evidence/ and known_findings.json live.
var VerifDir = func() string {
	if d := os.Getenv("VERIF_DIR"); d != "" {
		return d
	}
	return "/verif"
}()

type Violation struct {
	Property  string      `json:"property"`
	Signature string      `json:"signature"`
	Text      string      `json:"text"`
	Batch     int         `json:"batch"`
	Case      int         `json:"case"`
	Race      bool        `json:"race_build,omitempty"`
	Witness   interface{} `json:"witness,omitempty"`
}

type Result struct {
	Evaluations  int64                       `json:"evaluations"`
	Hashes       []uint64                    `json:"hashes"`
	Counters     map[string]int64            `json:"counters"`
	Maxes        map[string]int64            `json:"maxes"`
	Hist         map[string]map[string]int64 `json:"hist"`
	Samples      []interface{}               `json:"samples"`
	Violations   []Violation                 `json:"violations"`
	Inconclusive []string                    `json:"inconclusive"`
	Broken       []string                    `json:"broken"`
}

func newResult() *Result {
	return &Result{Counters: map[string]int64{}, Maxes: map[string]int64{}, Hist: map[string]map[string]int64{}}
}

// Ctx is what a check's batch function sees (inside the child process).
type Ctx struct {
	ID       string
	Tier     string
	Seed     int64
	Batch    int
	NBatches int
	Only     int // >= 0: replay only this case index
	Race     bool
	Tmp      string
	Res      *Result

	mu       sync.Mutex
	hashes   map[uint64]bool
	progress *os.File
	caseIdx  int
	MaxSamp  int
}

func (c *Ctx) Thorough() bool { return c.Tier == "thorough" }

// Pick returns q for the quick tier and t for the thorough one.
func (c *Ctx) Pick(q, t int) int {
	if c.Thorough() {
		return t
	}
	return q
}

// CaseRng starts case i: logs it (so a crash names its witness) and returns a PRNG
// determined by (seed, check, batch, i) only. ok=false when a replay asks for
// another case.
func (c *Ctx) CaseRng(i int, desc string) (*rand.Rand, bool) {
	if c.Only >= 0 && c.Only != i {
		return nil, false
	}
	c.mu.Lock()
	c.caseIdx = i
	if c.progress != nil {
		fmt.Fprintf(c.progress, "case %d %s\n", i, desc)
	}
	c.mu.Unlock()
	h := fnv.New64a()
	fmt.Fprintf(h, "%s/%d/%d/%d", c.ID, c.Seed, c.Batch, i)
	return rand.New(rand.NewSource(int64(h.Sum64()))), true
}

func (c *Ctx) Note(format string, a ...interface{}) {
	c.mu.Lock()
	if c.progress != nil {
		fmt.Fprintf(c.progress, "  "+format+"\n", a...)
	}
	c.mu.Unlock()
}

func (c *Ctx) Eval(n int) {
	c.mu.Lock()
	c.Res.Evaluations += int64(n)
	c.mu.Unlock()
}
func (c *Ctx) Count(k string, n int64) {
	c.mu.Lock()
	c.Res.Counters[k] += n
	c.mu.Unlock()
}
func (c *Ctx) Max(k string, n int64) {
	c.mu.Lock()
	if n > c.Res.Maxes[k] {
		c.Res.Maxes[k] = n
	}
	c.mu.Unlock()
}
func (c *Ctx) Hist(k, v string, n int64) {
	c.mu.Lock()
	m := c.Res.Hist[k]
	if m == nil {
		m = map[string]int64{}
		c.Res.Hist[k] = m
	}
	m[v] += n
	c.mu.Unlock()
}

// Distinct records the hash of one non-trivial case.
func (c *Ctx) Distinct(parts ...interface{}) {
	h := fnv.New64a()
	fmt.Fprint(h, parts...)
	c.mu.Lock()
	if c.hashes == nil {
		c.hashes = map[uint64]bool{}
	}
	c.hashes[h.Sum64()] = true
	c.mu.Unlock()
}
func (c *Ctx) Sample(x interface{}) {
	c.mu.Lock()
	if len(c.Res.Samples) < c.MaxSamp {
		c.Res.Samples = append(c.Res.Samples, x)
	}
	c.mu.Unlock()
}
func (c *Ctx) Violate(sig, text string, witness interface{}) {
	c.mu.Lock()
	if len(c.Res.Violations) < 200 {
		c.Res.Violations = append(c.Res.Violations, Violation{Property: c.ID, Signature: sig, Text: text, Batch: c.Batch, Case: c.caseIdx, Race: c.Race, Witness: witness})
	} else {
		c.Res.Counters["violations_dropped"]++
	}
	if c.progress != nil {
		fmt.Fprintf(c.progress, "  VIOLATION %s: %s\n", sig, text)
	}
	c.mu.Unlock()
}
func (c *Ctx) Inconclusive(s string) {
	c.mu.Lock()
	if len(c.Res.Inconclusive) < 50 {
		c.Res.Inconclusive = append(c.Res.Inconclusive, s)
	}
	c.Res.Counters["inconclusive"]++
	c.mu.Unlock()
}
func (c *Ctx) Broken(s string) {
	c.mu.Lock()
	c.Res.Broken = append(c.Res.Broken, s)
	c.mu.Unlock()
}

// Check describes one property's check.
type Check struct {
	ID          string
	Level       string
	Rule        string
	Assumptions []string
	// Batches returns how many child batches a tier uses.
	Batches func(tier string) int
	// RaceBatches: how many additional batches run under the -race binary.
	RaceBatches func(tier string) int
	// AsanBatches: additional batches under the -asan binary (skipped when it was not built).
	AsanBatches func(tier string) int
	Run         func(c *Ctx)
	// MustObserve lists counters that must be > 0 in the merged result, else
	// the monitor was blind and the check is broken (exit 2).
	MustObserve []string
	// Exhaustive: coverage.exhaustive in the evidence.
	Exhaustive bool
	// ChildTimeout per batch.
	ChildTimeout func(tier string) time.Duration
	// Parallel children (default 16).
	Parallel int
	// Binary: name of the binary under bin/ that runs the children ("" = vcheck).
	Binary string
	// Classify lets a check turn a crashed/hung child's output into a
	// violation signature ("" = use the generic classification).
	Classify func(out string) (sig, text string)
}

var Registry = map[string]*Check{}

func Register(c *Check) { Registry[c.ID] = c }

// ---------------------------------------------------------------- child side

func ChildMain(args []string) int {
	// child <ID> <tier> <seed> <batch> <nbatches> <outdir> <only> <race>
	if len(args) < 8 {
		fmt.Fprintln(os.Stderr, "child: bad args")
		return 2
	}
	ck := Registry[args[0]]
	if ck == nil {
		fmt.Fprintln(os.Stderr, "child: unknown check", args[0])
		return 2
	}
	seed, _ := strconv.ParseInt(args[2], 10, 64)
	batch, _ := strconv.Atoi(args[3])
	nb, _ := strconv.Atoi(args[4])
	out := args[5]
	only, _ := strconv.Atoi(args[6])
	race := args[7] == "1"
	tmp, err := os.MkdirTemp("", "vchk-"+args[0]+"-")
	if err != nil {
		fmt.Fprintln(os.Stderr, err)
		return 2
	}
	defer os.RemoveAll(tmp)
	pf, _ := os.OpenFile(filepath.Join(out, fmt.Sprintf("b%d.log", batch)), os.O_CREATE|os.O_WRONLY|os.O_APPEND, 0o644)
	c := &Ctx{ID: ck.ID, Tier: args[1], Seed: seed, Batch: batch, NBatches: nb, Only: only, Race: race, Tmp: tmp, Res: newResult(), progress: pf, MaxSamp: 3}
	RaiseInotifyLimit()
	code := 0
	func() {
		defer func() {
			// A panic in the library under test on the harness's own goroutine
			// is a finding, not a harness failure; re-panic after saving what
			// we have so the driver sees the trace.
			if r := recover(); r != nil {
				writeResult(c, out)
				os.RemoveAll(tmp)
				panic(r)
			}
		}()
		ck.Run(c)
	}()
	writeResult(c, out)
	return code
}

func writeResult(c *Ctx, out string) {
	c.mu.Lock()
	for h := range c.hashes {
		c.Res.Hashes = append(c.Res.Hashes, h)
	}
	b, _ := json.Marshal(c.Res)
	c.mu.Unlock()
	tmpf := filepath.Join(out, fmt.Sprintf("b%d.json.tmp", c.Batch))
	os.WriteFile(tmpf, b, 0o644)
	os.Rename(tmpf, filepath.Join(out, fmt.Sprintf("b%d.json", c.Batch)))
}

// RaiseInotifyLimit raises fs.inotify.max_user_instances when it is low (root
// only; an environment tweak, the code under test is unaffected).
func RaiseInotifyLimit() {
	const p = "/proc/sys/fs/inotify/max_user_instances"
	b, err := os.ReadFile(p)
	if err != nil {
		return
	}
	n, _ := strconv.Atoi(strings.TrimSpace(string(b)))
	if n < 4096 {
		os.WriteFile(p, []byte("4096\n"), 0o644)
	}
}

// --------------------------------------------------------------- driver side

type knownFinding struct {
	Property  string `json:"property"`
	ID        string `json:"id"`
	Status    string `json:"status"`
	Signature string `json:"signature"`
	Commit    string `json:"commit,omitempty"`
	Text      string `json:"text"`
}

func loadKnown() []knownFinding {
	b, err := os.ReadFile(filepath.Join(VerifDir, "known_findings.json"))
	if err != nil {
		return nil
	}
	var f struct {
		Findings []knownFinding `json:"findings"`
	}
	if json.Unmarshal(b, &f) != nil {
		return nil
	}
	return f.Findings
}

type replayFile struct {
	ID        string      `json:"id"`
	Tier      string      `json:"tier"`
	Seed      int64       `json:"seed"`
	Batch     int         `json:"batch"`
	NBatches  int         `json:"nbatches"`
	Case      int         `json:"case"`
	Race      bool        `json:"race_build"`
	Signature string      `json:"signature"`
	Text      string      `json:"text"`
	Witness   interface{} `json:"witness,omitempty"`
	Output    string      `json:"child_output_tail,omitempty"`
}

func binPath(name string, race bool) string {
	if name == "" {
		name = "vcheck"
	}
	if race {
		name += ".race"
	}
	return filepath.Join(VerifDir, "bin", name)
}

type batchSpec struct {
	idx  int
	race bool
	asan bool
}

// DriverMain runs check id at tier and returns the process exit code.
func DriverMain(id, tier string, replay string) int {
	ck := Registry[id]
	if ck == nil {
		fmt.Fprintln(os.Stderr, "unknown check", id)
		return 2
	}
	seed := int64(1)
	if s := os.Getenv("VERIF_SEED"); s != "" {
		if v, err := strconv.ParseInt(s, 10, 64); err == nil {
			seed = v
		}
	}
	start := time.Now()
	RaiseInotifyLimit()
	outdir, err := os.MkdirTemp("", "vdrv-"+id+"-")
	if err != nil {
		fmt.Fprintln(os.Stderr, err)
		return 2
	}
	defer os.RemoveAll(outdir)

	var specs []batchSpec
	nb := 1
	if ck.Batches != nil {
		nb = ck.Batches(tier)
	}
	only := -1
	if replay != "" {
		var rf replayFile
		b, err := os.ReadFile(replay)
		if err != nil || json.Unmarshal(b, &rf) != nil {
			fmt.Fprintln(os.Stderr, "cannot read replay file", replay)
			return 2
		}
		seed, tier, only, nb = rf.Seed, rf.Tier, rf.Case, rf.NBatches
		specs = []batchSpec{{idx: rf.Batch, race: rf.Race}}
	} else {
		for i := 0; i < nb; i++ {
			specs = append(specs, batchSpec{idx: i})
		}
		if ck.RaceBatches != nil {
			for i := 0; i < ck.RaceBatches(tier); i++ {
				specs = append(specs, batchSpec{idx: nb + i, race: true})
			}
		}
		if ck.AsanBatches != nil && ck.AsanBatches(tier) > 0 {
			if _, err := os.Stat(binPath(ck.Binary, false) + ".asan"); err == nil {
				for i := 0; i < ck.AsanBatches(tier); i++ {
					specs = append(specs, batchSpec{idx: len(specs), asan: true})
				}
			} else {
				fmt.Printf("NOTE check=%s the -asan binary is not built; its batches are skipped\n", id)
			}
		}
	}
	total := len(specs)
	if replay == "" {
		nb = total
	}

	par := ck.Parallel
	if par <= 0 {
		par = 16
	}
	if n := runtime.NumCPU(); par > n {
		par = n
	}
	timeout := 10 * time.Minute
	if ck.ChildTimeout != nil {
		timeout = ck.ChildTimeout(tier)
	}

	merged := newResult()
	hashes := map[uint64]bool{}
	var mu sync.Mutex
	sem := make(chan struct{}, par)
	var wg sync.WaitGroup
	for _, sp := range specs {
		wg.Add(1)
		sem <- struct{}{}
		go func(sp batchSpec) {
			defer wg.Done()
			defer func() { <-sem }()
			r, extra := runChild(ck, tier, seed, sp, nb, outdir, only, timeout)
			mu.Lock()
			defer mu.Unlock()
			mergeInto(merged, r, hashes)
			merged.Violations = append(merged.Violations, extra...)
		}(sp)
	}
	wg.Wait()

	// verdict
	known := loadKnown()
	code := 0
	os.MkdirAll(filepath.Join(VerifDir, "evidence", "replays"), 0o755)
	sort.SliceStable(merged.Violations, func(i, j int) bool {
		a, b := merged.Violations[i], merged.Violations[j]
		if a.Batch != b.Batch {
			return a.Batch < b.Batch
		}
		return a.Case < b.Case
	})
	knownSeen := map[string]int{}
	newViol := 0
	printed := map[string]int{}
	for _, v := range merged.Violations {
		isKnown := false
		for _, k := range known {
			if k.Status == "known" && k.Property == id && k.Signature == v.Signature {
				isKnown = true
				knownSeen[k.Signature+"\x00"+k.Text]++
			}
		}
		if isKnown {
			continue
		}
		newViol++
		printed[v.Signature]++
		if printed[v.Signature] > 3 { // do not flood: three witnesses per signature
			continue
		}
		rp := filepath.Join(VerifDir, "evidence", "replays", fmt.Sprintf("%s-%d-b%d-c%d-%s.json", id, seed, v.Batch, v.Case, sanitize(v.Signature)))
		rf := replayFile{ID: id, Tier: tier, Seed: seed, Batch: v.Batch, NBatches: nb, Case: v.Case, Race: v.Race, Signature: v.Signature, Text: v.Text, Witness: v.Witness}
		b, _ := json.MarshalIndent(rf, "", " ")
		os.WriteFile(rp, b, 0o644)
		fmt.Printf("VIOLATION property=%s replay=%s\n", id, rp)
		fmt.Printf("  signature=%s %s\n", v.Signature, oneLine(v.Text, 400))
		code = 1
	}
	var keys []string
	for k := range knownSeen {
		keys = append(keys, k)
	}
	sort.Strings(keys)
	for _, k := range keys {
		p := strings.SplitN(k, "\x00", 2)
		fmt.Printf("KNOWN-FINDING: property=%s %s [signature=%s, %d witnesses this run]\n", id, p[1], p[0], knownSeen[k])
	}
	for _, b := range merged.Broken {
		fmt.Printf("BROKEN check=%s %s\n", id, oneLine(b, 400))
		if code == 0 {
			code = 2
		}
	}
	if replay == "" {
		for _, m := range ck.MustObserve {
			if merged.Counters[m] == 0 {
				fmt.Printf("BROKEN check=%s monitor observed nothing for %q\n", id, m)
				if code == 0 {
					code = 2
				}
			}
		}
	}
	for _, s := range merged.Inconclusive {
		fmt.Printf("INCONCLUSIVE check=%s %s\n", id, oneLine(s, 300))
	}

	wall := time.Since(start).Seconds()
	if replay == "" {
		writeEvidence(ck, tier, seed, merged, len(hashes), total, newViol, knownSeen, wall)
	}
	verdict := "held on what was observed"
	if code == 1 {
		verdict = "VIOLATED"
	} else if code == 2 {
		verdict = "CHECK BROKEN"
	}
	fmt.Printf("%s %s seed=%d: %s — evaluations=%d distinct_nontrivial=%d batches=%d inconclusive=%d known=%d wall=%.1fs\n",
		id, tier, seed, verdict, merged.Evaluations, len(hashes), total, len(merged.Inconclusive), len(knownSeen), wall)
	return code
}

func sanitize(s string) string {
	return regexp.MustCompile(`[^A-Za-z0-9_.-]+`).ReplaceAllString(s, "_")
}
func oneLine(s string, n int) string {
	s = strings.ReplaceAll(s, "\n", " ⏎ ")
	if len(s) > n {
		s = s[:n] + "…"
	}
	return s
}

func mergeInto(m, r *Result, hashes map[uint64]bool) {
	if r == nil {
		return
	}
	m.Evaluations += r.Evaluations
	for _, h := range r.Hashes {
		hashes[h] = true
	}
	for k, v := range r.Counters {
		m.Counters[k] += v
	}
	for k, v := range r.Maxes {
		if v > m.Maxes[k] {
			m.Maxes[k] = v
		}
	}
	for k, h := range r.Hist {
		if m.Hist[k] == nil {
			m.Hist[k] = map[string]int64{}
		}
		for kk, v := range h {
			m.Hist[k][kk] += v
		}
	}
	for _, s := range r.Samples {
		if len(m.Samples) < 4 {
			m.Samples = append(m.Samples, s)
		}
	}
	m.Violations = append(m.Violations, r.Violations...)
	m.Inconclusive = append(m.Inconclusive, r.Inconclusive...)
	m.Broken = append(m.Broken, r.Broken...)
}

var raceRe = regexp.MustCompile(`WARNING: DATA RACE`)

func runChild(ck *Check, tier string, seed int64, sp batchSpec, nb int, outdir string, only int, timeout time.Duration) (*Result, []Violation) {
	bin := binPath(ck.Binary, sp.race)
	if sp.asan {
		bin = binPath(ck.Binary, false) + ".asan"
	}
	outf := filepath.Join(outdir, fmt.Sprintf("b%d.out", sp.idx))
	of, _ := os.Create(outf)
	ctx, cancel := context.WithTimeout(context.Background(), timeout)
	defer cancel()
	raceArg := "0"
	if sp.race {
		raceArg = "1"
	}
	cmd := exec.Command(bin, "child", ck.ID, tier, strconv.FormatInt(seed, 10), strconv.Itoa(sp.idx), strconv.Itoa(nb), outdir, strconv.Itoa(only), raceArg)
	cmd.Stdout, cmd.Stderr = of, of
	// every temp file of the child lives below the driver's own temp directory, which the driver
	// removes on exit even when the child was killed
	ctmp := filepath.Join(outdir, fmt.Sprintf("tmp-b%d", sp.idx))
	os.MkdirAll(ctmp, 0o755)
	cmd.Env = append(os.Environ(), "GORACE=halt_on_error=0 history_size=2", "GOTRACEBACK=all", "TMPDIR="+ctmp)
	cmd.SysProcAttr = &syscall.SysProcAttr{Setpgid: true}
	err := cmd.Start()
	if err != nil {
		of.Close()
		return &Result{Broken: []string{"cannot start child: " + err.Error()}}, nil
	}
	done := make(chan error, 1)
	go func() { done <- cmd.Wait() }()
	timedOut := false
	select {
	case err = <-done:
	case <-ctx.Done():
		timedOut = true
		cmd.Process.Signal(syscall.SIGQUIT)
		select {
		case err = <-done:
		case <-time.After(10 * time.Second):
			syscall.Kill(-cmd.Process.Pid, syscall.SIGKILL)
			err = <-done
		}
	}
	of.Close()
	outb, _ := os.ReadFile(outf)
	out := string(outb)
	var res *Result
	if b, e := os.ReadFile(filepath.Join(outdir, fmt.Sprintf("b%d.json", sp.idx))); e == nil {
		res = newResult()
		if json.Unmarshal(b, res) != nil {
			res = nil
		}
	}
	var extra []Violation
	lastCase, lastDesc := lastCaseOf(filepath.Join(outdir, fmt.Sprintf("b%d.log", sp.idx)))
	tail := out
	if len(tail) > 6000 {
		tail = tail[:3000] + "\n…\n" + tail[len(tail)-3000:]
	}
	if n := len(raceRe.FindAllString(out, -1)); n > 0 {
		for _, rep := range dedupRaces(out) {
			if !strings.Contains(rep.text, "github.com/fsnotify/fsnotify") {
				if res == nil {
					res = newResult()
				}
				res.Broken = append(res.Broken, "data race wholly inside the harness: "+oneLine(rep.text, 500))
				continue
			}
			extra = append(extra, Violation{Property: ck.ID, Signature: "data-race:" + rep.key, Text: rep.text, Batch: sp.idx, Case: lastCase, Race: sp.race})
		}
	}
	if strings.Contains(out, "ERROR: AddressSanitizer") {
		line := firstMatch(out, `(?m)^.*ERROR: AddressSanitizer.*$`)
		extra = append(extra, Violation{Property: ck.ID, Signature: "asan:" + crashClass(line, out), Text: line + " (case: " + lastDesc + ")", Batch: sp.idx, Case: lastCase, Witness: tail})
		return res, extra
	}
	if err != nil {
		if ck.Classify != nil {
			if sig, text := ck.Classify(out); sig != "" {
				extra = append(extra, Violation{Property: ck.ID, Signature: sig, Text: text + " (case: " + lastDesc + ")", Batch: sp.idx, Case: lastCase, Race: sp.race, Witness: tail})
				return res, extra
			}
		}
		switch {
		case timedOut:
			if res == nil {
				res = newResult()
			}
			res.Inconclusive = append(res.Inconclusive, fmt.Sprintf("batch %d stopped by the %v watchdog during case %d (%s); see goroutine dump in child output", sp.idx, timeout, lastCase, lastDesc))
			res.Counters["inconclusive"]++
		case strings.Contains(out, "panic:") || strings.Contains(out, "fatal error:") || strings.Contains(out, "SIGSEGV"):
			line := firstMatch(out, `(?m)^(panic:|fatal error:).*$`)
			sig := "crash:" + crashClass(line, out)
			extra = append(extra, Violation{Property: ck.ID, Signature: sig, Text: line + " (case: " + lastDesc + ")", Batch: sp.idx, Case: lastCase, Race: sp.race, Witness: tail})
		case len(extra) > 0:
			// race report made the child exit non-zero at the end (exit 66)
		default:
			if res == nil {
				res = newResult()
			}
			res.Broken = append(res.Broken, fmt.Sprintf("batch %d: child failed (%v) without a recognisable report: %s", sp.idx, err, oneLine(tail, 600)))
		}
	} else if res == nil {
		res = newResult()
		res.Broken = append(res.Broken, fmt.Sprintf("batch %d: child wrote no result", sp.idx))
	}
	return res, extra
}

func firstMatch(s, re string) string {
	m := regexp.MustCompile(re).FindString(s)
	return m
}

// crashClass reduces a crash to a stable label: the kind of crash plus the
// innermost fsnotify frame.
func crashClass(line, out string) string {
	kind := "panic"
	switch {
	case strings.Contains(line, "concurrent map"):
		kind = "concurrent-map"
	case strings.Contains(line, "closed channel"):
		kind = "closed-channel"
	case strings.Contains(line, "nil pointer"):
		kind = "nil-deref"
	case strings.Contains(line, "checkptr"):
		kind = "checkptr"
	case strings.Contains(line, "index out of range"), strings.Contains(line, "slice bounds"):
		kind = "bounds"
	case strings.Contains(line, "deadlock"):
		kind = "deadlock"
	}
	fr := regexp.MustCompile(`(?m)^github\.com/fsnotify/fsnotify\.([^\s(]*(?:\([^)]*\))?[^\s(]*)\(`).FindStringSubmatch(out)
	if fr != nil {
		return kind + "@" + fr[1]
	}
	return kind
}

type raceRep struct{ key, text string }

// dedupRaces splits race-detector output into reports and deduplicates them by
// the pair of outermost non-runtime entry points.
func dedupRaces(out string) []raceRep {
	blocks := strings.Split(out, "==================")
	seen := map[string]bool{}
	var reps []raceRep
	fn := regexp.MustCompile(`(?m)^  ([A-Za-z0-9_./*()\-]+)\(\)$`)
	for _, b := range blocks {
		if !strings.Contains(b, "WARNING: DATA RACE") {
			continue
		}
		// stacks are separated by blank lines; take the first function of the first two stacks
		var tops []string
		for _, st := range strings.Split(b, "\n\n") {
			m := fn.FindAllStringSubmatch(st, -1)
			if len(m) > 0 && len(tops) < 2 {
				tops = append(tops, m[0][1])
			}
		}
		sort.Strings(tops)
		key := strings.Join(tops, "+")
		if seen[key] {
			continue
		}
		seen[key] = true
		reps = append(reps, raceRep{key, strings.TrimSpace(b)})
	}
	return reps
}

func lastCaseOf(logf string) (int, string) {
	b, err := os.ReadFile(logf)
	if err != nil {
		return -1, ""
	}
	lines := bytes.Split(b, []byte("\n"))
	for i := len(lines) - 1; i >= 0; i-- {
		l := string(lines[i])
		if strings.HasPrefix(l, "case ") {
			f := strings.SplitN(l, " ", 3)
			n, _ := strconv.Atoi(f[1])
			d := ""
			if len(f) > 2 {
				d = f[2]
			}
			return n, d
		}
	}
	return -1, ""
}

func writeEvidence(ck *Check, tier string, seed int64, m *Result, distinct, batches, newViol int, known map[string]int, wall float64) {
	cov := map[string]interface{}{
		"evaluations":         m.Evaluations,
		"distinct_nontrivial": distinct,
		"rule":                ck.Rule,
		"samples":             m.Samples,
		"counters":            m.Counters,
		"maxima":              m.Maxes,
		"histograms":          m.Hist,
		"child_batches":       batches,
		"inconclusive":        len(m.Inconclusive),
		"inconclusive_detail": m.Inconclusive,
		"known_findings_seen": len(known),
		"verdict":             map[bool]string{true: "violated", false: "held on what was observed"}[newViol > 0],
	}
	if ck.Exhaustive {
		cov["exhaustive"] = true
	}
	if len(m.Samples) == 0 {
		cov["samples"] = []interface{}{}
	}
	ev := map[string]interface{}{
		"property_id": ck.ID,
		"tier":        tier,
		"seed":        seed,
		"level":       ck.Level,
		"coverage":    cov,
		"assumptions": ck.Assumptions,
		"wall_s":      wall,
		"violations":  newViol,
	}
	b, _ := json.MarshalIndent(ev, "", " ")
	os.MkdirAll(filepath.Join(VerifDir, "evidence"), 0o755)
	os.WriteFile(filepath.Join(VerifDir, "evidence", ck.ID+".json"), append(b, '\n'), 0o644)
}

// ------------------------------------------------------------------ helpers

// WithWatchdog runs f; if it has not returned after d it returns false together
// with a dump of all goroutines. The verdict must come from the dump, never
// from the clock.
func WithWatchdog(d time.Duration, f func()) (ok bool, dump string) {
	done := make(chan struct{})
	go func() { defer close(done); f() }()
	t := time.NewTimer(d)
	defer t.Stop()
	select {
	case <-done:
		return true, ""
	case <-t.C:
		return false, AllStacks()
	}
}

func AllStacks() string {
	buf := make([]byte, 1<<20)
	for {
		n := runtime.Stack(buf, true)
		if n < len(buf) {
			return string(buf[:n])
		}
		buf = make([]byte, 2*len(buf))
	}
}

// Goroutines splits a dump into per-goroutine blocks.
func Goroutines(dump string) []string {
	var out []string
	for _, b := range strings.Split(dump, "\n\n") {
		if strings.HasPrefix(strings.TrimSpace(b), "goroutine ") {
			out = append(out, b)
		}
	}
	return out
}
