// vcheck: driver and child of every check that links the real fsnotify from /repo.
package main

import (
	"fmt"
	"os"

	"harness/checks"
	"harness/core"
)

func main() {
	if len(os.Args) < 2 {
		fmt.Fprintln(os.Stderr, "usage: vcheck run <ID> <quick|thorough> [--replay file] | vcheck child …")
		os.Exit(2)
	}
	switch os.Args[1] {
	case "child":
		os.Exit(core.ChildMain(os.Args[2:]))
	case "faultchild":
		os.Exit(checks.FaultChildMain(os.Args[2:]))
	case "addfaultchild":
		os.Exit(checks.AddFaultChildMain(os.Args[2:]))
	case "run":
		if len(os.Args) < 4 {
			fmt.Fprintln(os.Stderr, "usage: vcheck run <ID> <tier> [--replay file]")
			os.Exit(2)
		}
		replay := ""
		for i := 4; i+1 < len(os.Args); i++ {
			if os.Args[i] == "--replay" {
				replay = os.Args[i+1]
			}
		}
		os.Exit(core.DriverMain(os.Args[2], os.Args[3], replay))
	case "list":
		for id := range core.Registry {
			fmt.Println(id)
		}
	default:
		fmt.Fprintln(os.Stderr, "unknown subcommand", os.Args[1])
		os.Exit(2)
	}
}
