module harness

go 1.23

require (
	github.com/anishathalye/porcupine v1.3.0
	github.com/fsnotify/fsnotify v0.0.0
	golang.org/x/sys v0.13.0
)

replace github.com/fsnotify/fsnotify => /repo
