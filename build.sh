#!/bin/bash
# ./build.sh [ID [TIER]] — (re)build the binaries a check needs from /repo's working tree.
set -eu
cd "$(dirname "$0")"
export VERIF_DIR="$(pwd)"
export GOFLAGS=-mod=mod GOPROXY=off GOSUMDB=off GOTOOLCHAIN=local
ID="${1:-all}"; TIER="${2:-quick}"
mkdir -p bin
( cd harness && go build -tags verif -o ../bin/vcheck ./cmd/vcheck )
case "$ID" in
  all|C01|C05|C06|C07|C08|C11|C13)
    ( cd harness && go build -race -tags verif -o ../bin/vcheck.race ./cmd/vcheck ) ;;
esac
if [ "$TIER" = thorough ]; then case "$ID" in
  C01|C08) ( cd harness && CC=clang go build -asan -tags verif -o ../bin/vcheck.asan ./cmd/vcheck ) 2>/dev/null || echo "note: -asan build not available, asan batches will be skipped" ;;
esac; fi
case "$ID" in
  all|C15|C17|C18) ./harness/gen/gen.sh ;;
esac
case "$ID" in
  all|C17) ./harness/gen/gen.sh race ;;
esac
