#!/bin/bash
# ./run.sh <ID> <quick|thorough> [--replay <file>]
# Rebuilds the harness against /repo's current working tree (tag verif), then
# runs the check. Exit 0 held / 1 violation / 2 check broken.
set -u
cd "$(dirname "$0")"
export VERIF_DIR="$(pwd)"
export GOFLAGS=-mod=mod GOPROXY=off GOSUMDB=off GOTOOLCHAIN=local
ID="${1:?property id}"; TIER="${2:-quick}"; shift; shift || true
[ -n "${VERIF_TIER:-}" ] && TIER="$VERIF_TIER"
./build.sh "$ID" "$TIER" || { echo "BROKEN check=$ID build failed"; exit 2; }
BIN=vcheck; case "$ID" in C15|C17|C18) BIN=vgen;; esac
exec ./bin/$BIN run "$ID" "$TIER" "$@"
